// Package c13 simulates the sharded-aggregation setting StreamStats.Combine
// exists for: a stream source, a router feeding up to 6 accumulators, and a
// reducer that merges them in a drawn tree; after every event every touched
// accumulator is compared with the exact (400-bit) statistics of the multiset
// it stands for (DESIGN.md §4.2).
package c13

import (
	"fmt"
	"math"
	"math/big"
	"strings"

	"github.com/aclements/go-moremath/stats"
	"verif.local/harness/refmodel"
	"verif.local/harness/simkit"
	"verif.local/simhook"
)

type Prop struct{ St *simkit.Stats }

func New() *Prop { return &Prop{St: simkit.NewStats()} }

func (p *Prop) ID() string { return "C13" }

func (p *Prop) Meta() simkit.Meta {
	return simkit.Meta{
		Rule: "one run = one drawn history over 1-6 StreamStats accumulators: a stream of 0-200 values from a drawn family (plain, large offset up to 1e9 x spread, integers with ties, heavy ties, geometric magnitudes 1e-6..1e12) is routed by Add to a drawn subset of accumulators (the others stay empty: fault kind 'empty party'), interleaved with Combine(i<-j), Reset(i) and a final drawn merge tree; after every event the touched accumulator is checked against the exact multiset model. distinct = distinct hashes of the event-kind sequence with accumulator ids and emptiness flags (values abstracted); non-trivial = the history contains at least one Combine",
		Real: []string{"stats.StreamStats.Add", "stats.StreamStats.Combine", "stats.StreamStats.{Weight,Mean,Variance,StdDev,RMS}", "fields Count/Total/Min/Max"},
		Stub: []string{"stream source", "router", "reducer (merge tree)"},
		Assumptions: []string{
			"values are finite with |x| in [1e-6,1e12] or 0 (optionally all scaled by 2^+-300 or 2^+-460; or a same-sign stream with |x| in 1e153..1.2e154 and relative spread <= 1e-9), so that squares neither overflow nor underflow (the statement speaks of large offsets, not of overflow); counts are inflated to boundary values up to 2^40 by doubling merges, but not together with that scaling (squares times counts overflow in the merge formula)",
			"struct copies of a StreamStats used as checkpoints are not generated; self-merge s.Combine(s) IS generated (rarely), with the documented meaning 'as if all samples added to o were added to s', i.e. every value counted twice - the pinned code computes exactly that",
			"tolerances are derived from the data: |Total-ref| <= 8(n+4)eps*sum|x|, mean 8(n+4)eps*max|x|, variance abs error <= 8(n+4)^1.5*eps*sigma*sqrt(sigma^2+mean-square); observed/allowed is reported as max_error_over_bound",
			"an empty accumulator is only required to report Count==0 and Total==0 and to behave as empty in every later event",
		},
		FaultKinds:    []string{"empty_party"},
		NotApplicable: notApplicableFaults,
		RunsQuick:     400000, RunsThorough: 6000000,
	}
}

var notApplicableFaults = []string{"message loss/duplication/reordering", "partitions", "crash-restart with durable state", "torn/lost disk writes", "disk full", "clock skew/jumps", "allocation or syscall failure"}

const maxCount = 4000 // largest multiset kept explicitly (for the second history)

const maxTotalCount = 1 << 41

type ctx struct {
	p        *Prop
	g        simkit.G
	opt      simkit.RunOpt
	accs     []*stats.StreamStats
	model    []*refmodel.Acc
	bags     [][]float64 // the multiset each accumulator stands for
	hist     []string
	hash     simkit.Hasher
	viol     *simkit.Violation
	nComb    int
	countCap int // largest Count a Combine may produce in this run
	depth    []int
}

func (c *ctx) logf(format string, a ...any) {
	if c.opt.KeepHistory {
		c.hist = append(c.hist, fmt.Sprintf(format, a...))
	}
}

func (c *ctx) probe(name string) {
	if c.opt.Counting {
		c.p.St.Probes.Inc(name)
	}
}

func (c *ctx) fail(oracle, op, sig, format string, a ...any) {
	if c.viol == nil {
		c.viol = &simkit.Violation{Property: "C13", Oracle: "C13/" + oracle, Op: op, Sig: sig, Seq: simhook.Seq(), Message: fmt.Sprintf(format, a...)}
	}
}

// genValues draws the stream.
func genValues(g simkit.G, n int) ([]float64, string) {
	fam := g.Pick(6, 6, 4, 4, 4, 1)
	xs := make([]float64, n)
	name := ""
	switch fam {
	case 0:
		name = "plain"
		scale := math.Pow(10, float64(g.Range(-3, 6)))
		for i := range xs {
			xs[i] = g.Sym() * scale
			if xs[i] != 0 && math.Abs(xs[i]) < 1e-6 {
				xs[i] = 1e-6
			}
		}
	case 1:
		name = "offset"
		// offset up to 1e9 times the spread
		spread := math.Pow(10, float64(g.Range(-3, 2)))
		ratio := math.Pow(10, float64(g.Range(0, 9)))
		off := spread * ratio
		if g.Chance(1, 3) {
			off = -off
		}
		for i := range xs {
			xs[i] = off + spread*g.Sym()
		}
		name = fmt.Sprintf("offset(ratio=1e%d)", int(math.Round(math.Log10(ratio))))
	case 2:
		name = "ints"
		lo := g.Range(-20, 0)
		hi := g.Range(0, 20)
		for i := range xs {
			xs[i] = float64(g.Range(lo, hi))
		}
	case 3:
		name = "ties"
		k := g.Range(1, 4)
		vals := make([]float64, k)
		for i := range vals {
			vals[i] = g.Sym() * 1000
			if g.Chance(1, 4) {
				vals[i] = -math.Abs(vals[i]) - 1
			}
		}
		for i := range xs {
			xs[i] = vals[g.Intn(k)]
		}
	case 4:
		name = "geometric"
		neg := g.Intn(3) // 0: all positive, 1: mixed, 2: all negative
		for i := range xs {
			m := math.Pow(10, g.Uniform(-6, 12))
			if neg == 2 || (neg == 1 && g.Chance(1, 2)) {
				m = -m
			}
			xs[i] = m
		}
	case 5:
		// same-sign values whose squares are just representable (|x| between
		// 1e153 and 1.2e154) and whose relative spread is at most 1e-9: every statistic is
		// finite, but a product of a mean of squares with a count is not
		m := math.Pow(10, g.Uniform(153, 154)) * 1.2
		d := []float64{0, 1e-9, 1e-12}[g.Intn(3)] // (a wider spread times a count overflows in the library's own merge formula)
		if g.Chance(1, 2) {
			m = -m
		}
		name = fmt.Sprintf("top-of-range(spread=%g)*2^0", d)
		for i := range xs {
			xs[i] = m * (1 - d*g.Unit())
		}
		return xs, name
	}
	if g.Chance(1, 10) && n > 0 {
		// the whole stream scaled by an exact power of two near the ends of the
		// range in which squares neither overflow nor underflow
		e := []int{460, -460, 300, -300}[g.Intn(4)]
		for i := range xs {
			xs[i] = math.Ldexp(xs[i], e)
		}
		name += fmt.Sprintf("*2^%d", e)
	}
	return xs, name
}

func (c *ctx) flag(i int) string {
	if c.model[i].N == 0 {
		return "e"
	}
	return "n"
}

// check compares accumulator i with its model.
func (c *ctx) check(i int, op, sig string) {
	if c.viol != nil {
		return
	}
	s := c.accs[i]
	m := c.model[i]
	if uint(m.N) != s.Count {
		c.fail("count", op, sig, "acc %d: Count=%d, model has %d values", i, s.Count, m.N)
		return
	}
	if w := s.Weight(); w != float64(m.N) {
		c.fail("count", op, sig, "acc %d: Weight()=%v, want %d", i, w, m.N)
		return
	}
	if m.N == 0 {
		if s.Total != 0 {
			c.fail("empty", op, sig, "acc %d is empty but Total=%v", i, s.Total)
		}
		return
	}
	if s.Min != m.Min || s.Max != m.Max {
		c.fail("minmax", op, sig, "acc %d: Min=%v Max=%v, exact min=%v max=%v (n=%d)", i, s.Min, s.Max, m.Min, m.Max, m.N)
		return
	}
	where := func(stat string) string { return fmt.Sprintf("%s after %s n=%d", stat, op, m.N) }
	cmp := func(stat string, got float64, want *big.Float, tol float64) bool {
		err := refmodel.AbsErr(got, want)
		if c.opt.Counting {
			c.p.St.Ratio(err/tol, where(stat))
		}
		if !(err <= tol) {
			c.fail(stat, op, sig, "acc %d: %s=%v, exact %v (n=%d): |error| %.3g exceeds the bound %.3g", i, stat, got, refmodel.F(want), m.N, err, tol)
			return false
		}
		return true
	}
	if !cmp("total", s.Total, m.S1, m.TolSum()) {
		return
	}
	if !cmp("mean", s.Mean(), m.Mean(), m.TolMean()) {
		return
	}
	if !cmp("rms", s.RMS(), refmodel.Sqrt(m.MeanSq()), m.TolRMS()) {
		return
	}
	if m.N >= 2 {
		v := m.Var()
		if !cmp("variance", s.Variance(), v, m.TolVar()) {
			return
		}
		if !cmp("stddev", s.StdDev(), refmodel.Sqrt(v), m.TolStd()) {
			return
		}
	}
}

// op runs one library operation, converting a panic into a violation.
func (c *ctx) op(name, sig string, f func()) bool {
	simhook.BeginOp()
	pv, _ := simkit.Try(f)
	if pv != nil {
		if a, ok := simkit.IsAbort(pv); ok {
			panic(a)
		}
		c.fail("panic", name, sig, "%s panicked: %s", name, simkit.PanicString(pv))
		return false
	}
	return true
}

func (c *ctx) add(i int, x float64) {
	c.logf("Add(acc%d[%s], %v)", i, c.flag(i), x)
	c.hash.Str("A" + c.flag(i))
	c.hash.Word(uint64(i))
	if c.model[i].N == 0 && c.nComb > 0 {
		c.probe("add_to_empty_after_combine")
	}
	if !c.op("Add", "", func() { c.accs[i].Add(x) }) {
		return
	}
	c.model[i].Add(x)
	c.model[i].Ops++
	if c.bags[i] != nil || c.model[i].N == 1 {
		c.bags[i] = append(c.bags[i], x)
	}
	c.check(i, "Add", "")
}

func (c *ctx) combine(i, j int) bool {
	if c.model[i].N+c.model[j].N > c.countCap {
		return false
	}
	sig := "nonempty"
	le, re := c.model[i].N == 0, c.model[j].N == 0
	switch {
	case le && re:
		sig = "both-empty"
	case le:
		sig = "left-empty"
	case re:
		sig = "right-empty"
	}
	c.logf("Combine(acc%d[%s] <- acc%d[%s])", i, c.flag(i), j, c.flag(j))
	c.hash.Str("C" + c.flag(i) + c.flag(j))
	c.hash.Word(uint64(i)<<8 | uint64(j))
	c.probe("combine_" + sig)
	if c.opt.Counting && (le || re) {
		c.p.St.Faults.Inc("empty_party")
	}
	c.nComb++
	if !c.op("Combine", sig, func() { c.accs[i].Combine(c.accs[j]) }) {
		return true
	}
	if c.model[i].Ops == 0 && c.model[j].Ops == 0 {
		c.model[i].Ops = 1
	}
	c.model[i].Merge(c.model[j])
	if c.model[i].N <= maxCount && (c.bags[i] != nil || c.model[i].N == c.model[j].N) && (c.bags[j] != nil || c.model[j].N == 0) {
		c.bags[i] = append(c.bags[i], c.bags[j]...)
	} else {
		c.bags[i] = nil // too large (or unknown) to keep explicitly
	}
	d := c.depth[j] + 1
	if c.depth[i]+1 > d {
		d = c.depth[i] + 1
	}
	c.depth[i] = d
	if d >= 3 {
		c.probe("merge_depth_ge3")
	}
	c.check(i, "Combine", sig)
	// the right-hand side stands for the same multiset as before
	c.check(j, "Combine", sig+"/rhs")
	return true
}

// selfCombine is s.Combine(s): "as if all samples added to o were added to s"
// with o and s the same accumulator - every value counted twice.
func (c *ctx) selfCombine(i int) {
	if 2*c.model[i].N > c.countCap {
		return
	}
	c.logf("Combine(acc%d[%s] <- acc%d itself)", i, c.flag(i), i)
	c.hash.Str("C" + c.flag(i) + "self")
	c.hash.Word(uint64(i))
	c.probe("combine_self")
	c.nComb++
	if !c.op("Combine", "self", func() { c.accs[i].Combine(c.accs[i]) }) {
		return
	}
	c.model[i].Merge(c.model[i].Clone())
	if c.bags[i] != nil && 2*len(c.bags[i]) <= maxCount {
		c.bags[i] = append(c.bags[i], c.bags[i]...)
	} else {
		c.bags[i] = nil
	}
	c.depth[i]++
	c.check(i, "Combine", "self")
}

// inflate brings accumulator i's Count to a boundary value (2^k-1, 2^k, 2^k+1,
// k up to 40) by merging in D copies of one value, the D copies being built by
// the library itself through doubling merges (P <- P, R <- P): a merge tree of
// depth ~log2(D). Counts far beyond what 200 Adds reach are thus real
// histories, and a following Add lands exactly on a boundary count.
func (c *ctx) inflate(i int, v float64) {
	k := c.g.Range(5, 40)
	target := (1 << uint(k)) + c.g.Range(-1, 1)
	cur := c.model[i].N
	if target <= cur+1 || target > maxTotalCount {
		return
	}
	d := target - cur
	c.logf("inflate acc%d[%s] from %d to %d values by merging %d copies of %v built by doubling", i, c.flag(i), cur, target, d, v)
	c.hash.Str(fmt.Sprintf("I%d", k))
	c.probe("count_inflated_to_boundary")
	if k >= 32 {
		c.probe("count_at_or_beyond_2^32")
	}
	var p, r stats.StreamStats
	depth := 1
	ok := c.op("Combine", "inflate", func() {
		p.Add(v)
		for bit := uint(0); d>>bit > 0; bit++ {
			if d>>bit&1 == 1 {
				r.Combine(&p)
			}
			if d>>(bit+1) > 0 {
				p.Combine(&p)
			}
			depth += 2
		}
		c.accs[i].Combine(&r)
	})
	if !ok {
		return
	}
	c.nComb++
	ops := c.model[i].Ops
	if depth > ops {
		ops = depth
	}
	c.model[i].AddN(v, d)
	c.model[i].Ops = ops + 1
	c.bags[i] = nil
	c.depth[i] += 3
	c.check(i, "Combine", "inflate")
}

func (c *ctx) reset(i int) {
	c.logf("Reset(acc%d)", i)
	c.hash.Str("R")
	c.hash.Word(uint64(i))
	*c.accs[i] = stats.StreamStats{}
	c.model[i] = refmodel.NewAcc()
	c.bags[i] = []float64{}
	c.depth[i] = 0
	c.check(i, "Reset", "")
}

func (p *Prop) Run(t *simhook.Tape, opt simkit.RunOpt) *simkit.RunResult {
	g := simkit.Work(t)
	c := &ctx{p: p, g: g, opt: opt, hash: simkit.NewHasher()}
	nacc := g.Pick(2, 3, 3, 2, 2, 2) + 1
	var nvals int
	switch g.Pick(3, 4, 2) {
	case 0:
		nvals = g.Range(0, 6)
	case 1:
		nvals = g.BoundarySize(0, 40)
	default:
		nvals = g.BoundarySize(0, 200)
	}
	xs, fam := genValues(g, nvals)
	scaled := strings.Contains(fam, "*2^")
	c.countCap = maxTotalCount
	if scaled {
		c.countCap = maxCount // squares near the end of the range times huge counts overflow in the merge formula
	}
	if opt.Counting {
		p.St.Ops.Inc("family_" + famKey(fam))
		if len(fam) > 6 && fam[:6] == "offset" && (fam == "offset(ratio=1e8)" || fam == "offset(ratio=1e9)") {
			p.St.Probes.Inc("offset_over_spread_ge_1e8")
		}
	}
	c.logf("accumulators=%d values=%d family=%s", nacc, nvals, fam)
	// the router feeds only a drawn subset; the others receive nothing
	fed := make([]int, 0, nacc)
	for i := 0; i < nacc; i++ {
		if i == 0 || !g.Chance(1, 3) {
			fed = append(fed, i)
		}
	}
	if g.Chance(1, 8) {
		fed = fed[:0] // nobody is fed: every Combine is between empties
	}
	c.accs = make([]*stats.StreamStats, nacc)
	c.model = make([]*refmodel.Acc, nacc)
	c.bags = make([][]float64, nacc)
	c.depth = make([]int, nacc)
	for i := range c.accs {
		c.accs[i] = new(stats.StreamStats)
		c.model[i] = refmodel.NewAcc()
	}
	combineRate := g.Pick(1, 2, 2, 1) // 0: none until the end; else ~ every 16/6/2 events
	rates := []int{0, 16, 6, 2}

	body := func() {
		next := 0
		// the loop is bounded by construction (an all-zero tape draws Combine forever)
		for events := 0; c.viol == nil && next < len(xs) && events < 3*len(xs)+50 && !simhook.OverBudget(); events++ {
			// maybe a Combine / Reset between Adds
			if nacc > 1 && rates[combineRate] > 0 && g.Intn(rates[combineRate]) == 0 {
				i := g.Intn(nacc)
				j := g.Intn(nacc - 1)
				if j >= i {
					j++
				}
				c.combine(i, j)
				continue
			}
			if g.Chance(1, 40) {
				c.reset(g.Intn(nacc))
				continue
			}
			if g.Chance(1, 60) {
				c.selfCombine(g.Intn(nacc))
				continue
			}
			if !scaled && g.Chance(1, 50) {
				// (not together with the 2^+-460 scaling: squares times counts of 2^40
				// overflow in the merge formula - an overflow corner, not what the
				// statement is about)
				c.inflate(g.Intn(nacc), xs[next])
				continue
			}
			if len(fed) == 0 {
				next++ // value dropped: nobody listens
				continue
			}
			c.add(fed[g.Intn(len(fed))], xs[next])
			next++
		}
		// final reduction: merge everything into a root in a drawn tree
		if nacc > 1 && c.viol == nil {
			alive := g.Perm(nacc)
			for len(alive) > 1 && c.viol == nil {
				a := g.Intn(len(alive))
				b := g.Intn(len(alive) - 1)
				if b >= a {
					b++
				}
				if !c.combine(alive[a], alive[b]) {
					break
				}
				alive = append(alive[:b], alive[b+1:]...)
			}
			// the same accumulator merged into a second parent
			if len(alive) == 1 && nacc >= 3 && g.Chance(1, 3) && c.viol == nil {
				root := alive[0]
				other := (root + 1 + g.Intn(nacc-1)) % nacc
				if other != root {
					c.probe("merged_into_two_parents")
					c.combine(other, root)
				}
			}
			// Add after the reduction (an accumulator that came out of a
			// both-empty Combine must still work)
			if c.viol == nil && g.Chance(1, 2) {
				i := g.Intn(nacc)
				v := float64(g.Range(-5, 5))
				if strings.HasPrefix(fam, "top-of-range") {
					// a small value next to squares of 1e307 takes the merge
					// formula into its overflow corner (difference of the
					// means of squares times a count)
					v = 0
					if len(xs) > 0 {
						v = xs[0]
					}
				}
				c.add(i, v)
			}
		}
		// order law: the same multiset through a second drawn history
		if c.viol == nil {
			c.secondHistory(g)
		}
	}
	res, abort := simkit.RunSolo(t, 4000000, 5000000, true, body)
	rr := &simkit.RunResult{Hash: uint64(c.hash), Nontrivial: c.nComb > 0, Steps: res.Steps, History: c.hist, Policy: "seq"}
	if abort != nil && !simkit.AbortIsVerdict(abort) {
		rr.BudgetHit = true
	}
	if simkit.AbortIsVerdict(abort) && c.viol == nil {
		c.viol = &simkit.Violation{Property: "C13", Oracle: "C13/no-progress", Op: "run", Seq: res.Steps, Message: abort.Reason + abort.Where()}
		rr.BudgetHit = true
	}
	rr.Violation = c.viol
	return rr
}

// secondHistory re-feeds accumulator 0's multiset, permuted and split at a
// drawn point into two fresh accumulators that are then combined; the result
// must again be within the bound of the exact value (so any two histories
// agree to within twice the bound).
func (c *ctx) secondHistory(g simkit.G) {
	bag := c.bags[0]
	if len(bag) == 0 || len(bag) > 400 || len(bag) != c.model[0].N {
		return
	}
	perm := g.Perm(len(bag))
	cut := g.Intn(len(bag) + 1)
	var a, b stats.StreamStats
	m := refmodel.NewAcc()
	ok := c.op("Add", "", func() {
		for k, pi := range perm {
			if k < cut {
				a.Add(bag[pi])
			} else {
				b.Add(bag[pi])
			}
			m.Add(bag[pi])
		}
	})
	if !ok {
		return
	}
	sig := "nonempty"
	if cut == 0 {
		sig = "left-empty"
	} else if cut == len(bag) {
		sig = "right-empty"
	}
	c.logf("SecondHistory(multiset of acc0 permuted, split at %d of %d, Combine)", cut, len(bag))
	c.hash.Str("S")
	if !c.op("Combine", sig, func() { a.Combine(&b) }) {
		return
	}
	c.probe("second_history")
	// check a against m using a temporary slot
	c.accs = append(c.accs, &a)
	c.model = append(c.model, m)
	c.check(len(c.accs)-1, "Combine", sig+"/second-history")
	c.accs = c.accs[:len(c.accs)-1]
	c.model = c.model[:len(c.model)-1]
}

func famKey(f string) string {
	for i := 0; i < len(f); i++ {
		if f[i] == '(' {
			return f[:i]
		}
	}
	return f
}

func (p *Prop) Stats() *simkit.Stats { return p.St }
