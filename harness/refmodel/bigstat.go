// Package refmodel holds the executable reference models: exact (400-bit)
// statistics, definitional graph algorithms and a parser for the Dot dialect.
// Nothing here is derived from the implementation under test.
package refmodel

import (
	"math"
	"math/big"
)

const Prec = 400

const Eps = 1.1102230246251565e-16 // 2^-53

func BF(x float64) *big.Float { return new(big.Float).SetPrec(Prec).SetFloat64(x) }
func BI(n int) *big.Float     { return new(big.Float).SetPrec(Prec).SetInt64(int64(n)) }
func nb() *big.Float          { return new(big.Float).SetPrec(Prec) }

func F(x *big.Float) float64 { f, _ := x.Float64(); return f }

// AbsErr returns |got - want| as a float64.
func AbsErr(got float64, want *big.Float) float64 {
	if math.IsNaN(got) || math.IsInf(got, 0) {
		return math.Inf(1)
	}
	d := nb().Sub(BF(got), want)
	return math.Abs(F(d))
}

// Acc is an exact running summary of a weighted multiset: Σw, Σwx, Σwx², kept
// exactly (the sums of doubles and of products of two or three doubles within
// the generated magnitude range fit in 400 bits), plus min/max and Σ|wx|.
type Acc struct {
	N        int // number of entries (with multiplicity of insertion, zero weights included)
	Ops      int // depth of the lineage of library operations (Add, Combine) that produced the summarised object; 0 = unknown (use N)
	W        *big.Float
	S1, S2   *big.Float
	SumAbs   float64 // Σ|w·x| (float64 is enough: used only inside tolerances)
	SumAbsW  float64 // Σ|w|
	Min, Max float64 // over entries with non-zero weight; NaN when none
	MaxAbs   float64 // max |x| over entries with non-zero weight
}

func NewAcc() *Acc {
	return &Acc{W: nb(), S1: nb(), S2: nb(), Min: math.NaN(), Max: math.NaN()}
}

func (a *Acc) Clone() *Acc {
	c := *a
	c.W, c.S1, c.S2 = nb().Set(a.W), nb().Set(a.S1), nb().Set(a.S2)
	return &c
}

func (a *Acc) AddW(x, w float64) {
	a.N++
	bx, bw := BF(x), BF(w)
	wx := nb().Mul(bw, bx)
	a.W.Add(a.W, bw)
	a.S1.Add(a.S1, wx)
	a.S2.Add(a.S2, nb().Mul(wx, bx))
	a.SumAbs += math.Abs(w * x)
	a.SumAbsW += math.Abs(w)
	if w != 0 {
		if ax := math.Abs(x); ax > a.MaxAbs {
			a.MaxAbs = ax
		}
		if math.IsNaN(a.Min) || x < a.Min {
			a.Min = x
		}
		if math.IsNaN(a.Max) || x > a.Max {
			a.Max = x
		}
	}
}

func (a *Acc) Add(x float64) { a.AddW(x, 1) }

// AddN adds k copies of x (k may be astronomically large: counts built by
// repeated doubling).
func (a *Acc) AddN(x float64, k int) {
	bx, bk := BF(x), BI(k)
	kx := nb().Mul(bk, bx)
	a.N += k
	a.W.Add(a.W, bk)
	a.S1.Add(a.S1, kx)
	a.S2.Add(a.S2, nb().Mul(kx, bx))
	a.SumAbs += math.Abs(x) * float64(k)
	a.SumAbsW += float64(k)
	if ax := math.Abs(x); ax > a.MaxAbs {
		a.MaxAbs = ax
	}
	if math.IsNaN(a.Min) || x < a.Min {
		a.Min = x
	}
	if math.IsNaN(a.Max) || x > a.Max {
		a.Max = x
	}
}

// lin is the factor that grows with the number of rounding steps: the number
// of library operations when known, the number of entries otherwise.
func (a *Acc) lin() float64 {
	if a.Ops > 0 && a.Ops < a.N {
		return float64(a.Ops + 4)
	}
	return float64(a.N + 4)
}

// Merge adds all of o's entries to a.
func (a *Acc) Merge(o *Acc) {
	a.N += o.N
	if a.Ops > 0 || o.Ops > 0 {
		// rounding steps along the longest lineage: relative errors of the two
		// parts do not add up in a merge, the larger one carries over (plus the
		// merge's own few roundings)
		if o.Ops > a.Ops {
			a.Ops = o.Ops
		}
		a.Ops++
	}
	a.W.Add(a.W, o.W)
	a.S1.Add(a.S1, o.S1)
	a.S2.Add(a.S2, o.S2)
	a.SumAbs += o.SumAbs
	a.SumAbsW += o.SumAbsW
	if o.MaxAbs > a.MaxAbs {
		a.MaxAbs = o.MaxAbs
	}
	if !math.IsNaN(o.Min) && (math.IsNaN(a.Min) || o.Min < a.Min) {
		a.Min = o.Min
	}
	if !math.IsNaN(o.Max) && (math.IsNaN(a.Max) || o.Max > a.Max) {
		a.Max = o.Max
	}
}

// Mean returns Σwx/Σw (W must be non-zero).
func (a *Acc) Mean() *big.Float { return nb().Quo(a.S1, a.W) }

// MeanSq returns Σwx²/Σw.
func (a *Acc) MeanSq() *big.Float { return nb().Quo(a.S2, a.W) }

// M2 returns Σw(x-mean)² = S2 - S1²/W.
func (a *Acc) M2() *big.Float {
	t := nb().Mul(a.S1, a.S1)
	t.Quo(t, a.W)
	r := nb().Sub(a.S2, t)
	if r.Sign() < 0 {
		r.SetInt64(0)
	}
	return r
}

// Var returns the unweighted sample variance M2/(n-1); n = W must be an
// integer >= 2.
func (a *Acc) Var() *big.Float {
	d := nb().Sub(a.W, BI(1))
	return nb().Quo(a.M2(), d)
}

func Sqrt(x *big.Float) *big.Float {
	if x.Sign() <= 0 {
		return nb()
	}
	return nb().Sqrt(x)
}

// Kappa is the condition number of the variance, sqrt(1+mean²/var).
func (a *Acc) Kappa() float64 {
	v := F(a.Var())
	m := F(a.Mean())
	if v <= 0 {
		return math.Inf(1)
	}
	return math.Sqrt(1 + m*m/v)
}

// ---- tolerances: derived from the data, not from the implementation ----
// (DESIGN.md §4.2; calibrated headroom is reported as max_error_over_bound.)

const tolC = 8.0

// TolSum bounds |Σwx computed - exact| for any summation order.
func (a *Acc) TolSum() float64 {
	return tolC*a.lin()*Eps*a.SumAbs + math.SmallestNonzeroFloat64
}

// TolMean bounds the absolute error of a mean computed by any stable updating
// or merging scheme (m += (x-m)*w/W and its merge form): every step commits a
// rounding error proportional to |x-m| <= 2*max|x|, so the bound is in terms
// of the largest magnitude among the values that carry weight, not of the
// weighted mean magnitude (which can be far smaller when a large value has a
// small weight).
func (a *Acc) TolMean() float64 {
	return tolC*a.lin()*Eps*a.MaxAbs + math.SmallestNonzeroFloat64
}

// TolVar bounds the absolute error of the sample variance:
// 8·(n+4)^1.5·ε·σ·sqrt(σ²+μ²), plus a floor at rounding-squared level.
func (a *Acc) TolVar() float64 {
	v := F(a.Var())
	ms := F(a.MeanSq())
	n := float64(a.N + 4)
	// the linear factor counts rounding steps (operations); the square-root
	// factor is about the DATA (|delta| between two parts can reach sigma*sqrt(2n)
	// for n samples), so it keeps the number of entries
	lin := a.lin()
	// sqrt(v)*sqrt(v+ms), not sqrt(v*(v+ms)): the product under- or overflows for
	// data scaled towards the ends of the double range
	return tolC*lin*math.Sqrt(n)*Eps*math.Sqrt(v)*math.Sqrt(v+ms) + 4*lin*Eps*Eps*ms + math.SmallestNonzeroFloat64
}

// TolStd bounds the absolute error of the standard deviation.
func (a *Acc) TolStd() float64 {
	v := F(a.Var())
	if v <= 0 {
		return math.Sqrt(a.TolVar())
	}
	s := math.Sqrt(v)
	// d sqrt(v) = dv / (2 sqrt v), plus one rounding of the square root
	return a.TolVar()/(2*s) + 2*Eps*s + math.SmallestNonzeroFloat64
}

// TolRMS bounds the absolute error of sqrt(mean of squares) (a sum of
// non-negative terms: well conditioned).
func (a *Acc) TolRMS() float64 {
	r := math.Sqrt(F(a.MeanSq()))
	// the mean of squares is maintained like the mean (m += (x*x - m)*w/W and its
	// merge form): its absolute error scales with the largest square that
	// carries weight, not with the result - a few huge values merged with very
	// many tiny ones leave a tiny result with the huge values' rounding error
	if r <= 0 {
		return tolC*a.lin()*Eps*a.MaxAbs + math.SmallestNonzeroFloat64
	}
	return tolC*a.lin()*Eps*(r+a.MaxAbs*a.MaxAbs/(2*r)) + math.SmallestNonzeroFloat64
}
