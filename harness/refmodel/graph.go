package refmodel

import "sort"

// Adj is a plain adjacency-list digraph (multigraph: parallel edges and
// self-loops allowed).
type Adj [][]int

// DFSOrders returns the depth-first pre- and post-order of the nodes reachable
// from root, following adjacency order. Iterative, written from the
// definition (a node is visited when first reached; it finishes when all its
// out-edges have been examined).
func DFSOrders(g Adj, root int) (pre, post []int) {
	n := len(g)
	visited := make([]bool, n)
	type frame struct{ node, next int }
	stack := []frame{{root, 0}}
	visited[root] = true
	pre = append(pre, root)
	for len(stack) > 0 {
		f := &stack[len(stack)-1]
		if f.next < len(g[f.node]) {
			s := g[f.node][f.next]
			f.next++
			if !visited[s] {
				visited[s] = true
				pre = append(pre, s)
				stack = append(stack, frame{s, 0})
			}
			continue
		}
		post = append(post, f.node)
		stack = stack[:len(stack)-1]
	}
	return
}

// reach returns the set of nodes reachable from s (including s) by BFS.
func reach(g Adj, s int) []bool {
	seen := make([]bool, len(g))
	seen[s] = true
	q := []int{s}
	for len(q) > 0 {
		u := q[0]
		q = q[1:]
		for _, v := range g[u] {
			if !seen[v] {
				seen[v] = true
				q = append(q, v)
			}
		}
	}
	return seen
}

// SCCByReachability returns comp[u] = smallest node id mutually reachable with
// u (the definition; O(n·(n+e)), for small graphs).
func SCCByReachability(g Adj) []int {
	n := len(g)
	r := make([][]bool, n)
	for i := range r {
		r[i] = reach(g, i)
	}
	comp := make([]int, n)
	for u := 0; u < n; u++ {
		comp[u] = u
		for v := 0; v < u; v++ {
			if r[u][v] && r[v][u] {
				comp[u] = v
				break
			}
		}
	}
	return comp
}

// SCCKosaraju returns comp[u] = a representative id of u's component, by
// Kosaraju's two-pass algorithm (iterative; for large graphs). It is a
// different algorithm from the Tarjan variant under test.
func SCCKosaraju(g Adj) []int {
	n := len(g)
	order := make([]int, 0, n)
	visited := make([]bool, n)
	type frame struct{ node, next int }
	for s := 0; s < n; s++ {
		if visited[s] {
			continue
		}
		visited[s] = true
		stack := []frame{{s, 0}}
		for len(stack) > 0 {
			f := &stack[len(stack)-1]
			if f.next < len(g[f.node]) {
				v := g[f.node][f.next]
				f.next++
				if !visited[v] {
					visited[v] = true
					stack = append(stack, frame{v, 0})
				}
				continue
			}
			order = append(order, f.node)
			stack = stack[:len(stack)-1]
		}
	}
	rev := Transpose(g)
	comp := make([]int, n)
	for i := range comp {
		comp[i] = -1
	}
	for i := n - 1; i >= 0; i-- {
		s := order[i]
		if comp[s] >= 0 {
			continue
		}
		comp[s] = s
		st := []int{s}
		for len(st) > 0 {
			u := st[len(st)-1]
			st = st[:len(st)-1]
			for _, v := range rev[u] {
				if comp[v] < 0 {
					comp[v] = s
					st = append(st, v)
				}
			}
		}
	}
	return comp
}

// Transpose returns the reverse graph; In-lists are in ascending source order.
func Transpose(g Adj) Adj {
	t := make(Adj, len(g))
	for u, outs := range g {
		for _, v := range outs {
			t[v] = append(t[v], u)
		}
	}
	return t
}

// SortedCopy returns a sorted copy of xs.
func SortedCopy(xs []int) []int {
	c := append([]int(nil), xs...)
	sort.Ints(c)
	return c
}

// SameMultiset reports whether a and b are equal as multisets.
func SameMultiset(a, b []int) bool {
	if len(a) != len(b) {
		return false
	}
	x, y := SortedCopy(a), SortedCopy(b)
	for i := range x {
		if x[i] != y[i] {
			return false
		}
	}
	return true
}

func SameSeq(a, b []int) bool {
	if len(a) != len(b) {
		return false
	}
	for i := range a {
		if a[i] != b[i] {
			return false
		}
	}
	return true
}
