package refmodel

import (
	"fmt"
	"strconv"
)

// A small parser for the Dot dialect graphout.Dot.Fprint emits. It is written
// from the Dot language definition (quoted strings with backslash escapes,
// attribute lists, node and edge statements), not from the emitter.

type DotAttr struct {
	Name   string
	Quoted bool
	Val    string // unescaped when Quoted, raw token otherwise
}

type DotNode struct {
	ID    int
	Attrs []DotAttr
}

type DotEdge struct {
	From, To int
	Attrs    []DotAttr
}

type DotDoc struct {
	Name       string
	NameQuoted bool
	Nodes      []DotNode
	Edges      []DotEdge
}

type dotTok struct {
	kind byte // 's' quoted string, 'w' word, 'p' punctuation, 'a' arrow, 0 EOF
	text string
	pos  int
}

func dotLex(s string) ([]dotTok, error) {
	var toks []dotTok
	i := 0
	for i < len(s) {
		c := s[i]
		switch {
		case c == ' ' || c == '\t' || c == '\n' || c == '\r':
			i++
		case c == '"':
			start := i
			i++
			var buf []byte
			closed := false
			for i < len(s) {
				if s[i] == '\\' {
					if i+1 >= len(s) {
						return nil, fmt.Errorf("offset %d: backslash at end of input", i)
					}
					if s[i+1] == 'n' {
						buf = append(buf, '\n')
					} else {
						buf = append(buf, s[i+1])
					}
					i += 2
					continue
				}
				if s[i] == '"' {
					closed = true
					i++
					break
				}
				if s[i] == '\n' {
					return nil, fmt.Errorf("offset %d: raw newline inside a quoted string", i)
				}
				buf = append(buf, s[i])
				i++
			}
			if !closed {
				return nil, fmt.Errorf("offset %d: unterminated string", start)
			}
			toks = append(toks, dotTok{'s', string(buf), start})
		case c == '-' && i+1 < len(s) && s[i+1] == '>':
			toks = append(toks, dotTok{'a', "->", i})
			i += 2
		case c == '{' || c == '}' || c == '[' || c == ']' || c == ',' || c == '=' || c == ';':
			toks = append(toks, dotTok{'p', string(c), i})
			i++
		case isWordByte(c):
			start := i
			for i < len(s) && isWordByte(s[i]) && !(s[i] == '-' && i+1 < len(s) && s[i+1] == '>') {
				i++
			}
			toks = append(toks, dotTok{'w', s[start:i], start})
		default:
			return nil, fmt.Errorf("offset %d: unexpected character %q", i, c)
		}
	}
	toks = append(toks, dotTok{0, "", len(s)})
	return toks, nil
}

func isWordByte(c byte) bool {
	return c >= 'a' && c <= 'z' || c >= 'A' && c <= 'Z' || c >= '0' && c <= '9' || c == '_' || c == '.' || c == '+' || c == '-' || c >= 0x80
}

type dotParser struct {
	toks []dotTok
	i    int
}

func (p *dotParser) peek() dotTok { return p.toks[p.i] }
func (p *dotParser) next() dotTok { t := p.toks[p.i]; p.i++; return t }
func (p *dotParser) punct(s string) error {
	t := p.next()
	if (t.kind != 'p' && t.kind != 'a') || t.text != s {
		return fmt.Errorf("offset %d: expected %q, found %q", t.pos, s, t.text)
	}
	return nil
}

func nodeID(t dotTok) (int, error) {
	if t.kind != 'w' || len(t.text) < 2 || t.text[0] != 'n' {
		return 0, fmt.Errorf("offset %d: expected a node id n<k>, found %q", t.pos, t.text)
	}
	id, err := strconv.Atoi(t.text[1:])
	if err != nil || id < 0 {
		return 0, fmt.Errorf("offset %d: bad node id %q", t.pos, t.text)
	}
	return id, nil
}

func (p *dotParser) attrs() ([]DotAttr, error) {
	if t := p.peek(); t.kind != 'p' || t.text != "[" {
		return nil, nil
	}
	p.next()
	var out []DotAttr
	for {
		name := p.next()
		if name.kind != 'w' {
			return nil, fmt.Errorf("offset %d: expected attribute name, found %q", name.pos, name.text)
		}
		if err := p.punct("="); err != nil {
			return nil, err
		}
		v := p.next()
		if v.kind != 's' && v.kind != 'w' {
			return nil, fmt.Errorf("offset %d: expected attribute value, found %q", v.pos, v.text)
		}
		out = append(out, DotAttr{name.text, v.kind == 's', v.text})
		t := p.next()
		if t.kind == 'p' && t.text == "," {
			continue
		}
		if t.kind == 'p' && t.text == "]" {
			return out, nil
		}
		return nil, fmt.Errorf("offset %d: expected , or ], found %q", t.pos, t.text)
	}
}

// ParseDot parses the whole of s.
func ParseDot(s string) (*DotDoc, error) {
	toks, err := dotLex(s)
	if err != nil {
		return nil, err
	}
	p := &dotParser{toks: toks}
	if t := p.next(); t.kind != 'w' || t.text != "digraph" {
		return nil, fmt.Errorf("offset %d: expected digraph", t.pos)
	}
	doc := &DotDoc{}
	name := p.next()
	if name.kind != 's' && name.kind != 'w' {
		return nil, fmt.Errorf("offset %d: expected graph name", name.pos)
	}
	doc.Name, doc.NameQuoted = name.text, name.kind == 's'
	if err := p.punct("{"); err != nil {
		return nil, err
	}
	for {
		t := p.peek()
		if t.kind == 'p' && t.text == "}" {
			p.next()
			break
		}
		from, err := nodeID(p.next())
		if err != nil {
			return nil, err
		}
		if a := p.peek(); a.kind == 'a' {
			p.next()
			to, err := nodeID(p.next())
			if err != nil {
				return nil, err
			}
			at, err := p.attrs()
			if err != nil {
				return nil, err
			}
			doc.Edges = append(doc.Edges, DotEdge{from, to, at})
		} else {
			at, err := p.attrs()
			if err != nil {
				return nil, err
			}
			doc.Nodes = append(doc.Nodes, DotNode{from, at})
		}
		if err := p.punct(";"); err != nil {
			return nil, err
		}
	}
	if t := p.next(); t.kind != 0 {
		return nil, fmt.Errorf("offset %d: trailing input %q", t.pos, t.text)
	}
	return doc, nil
}
