package refmodel

import "math/big"

var ln2 *big.Float

func init() {
	// ln 2 = 2 atanh(1/3)
	ln2 = nb().Mul(BI(2), atanhSeries(nb().Quo(BI(1), BI(3))))
}

// atanhSeries computes atanh(z) = z + z³/3 + z⁵/5 + … for |z| <= 1/3.
func atanhSeries(z *big.Float) *big.Float {
	sum := nb().Set(z)
	z2 := nb().Mul(z, z)
	term := nb().Set(z)
	for k := 3; k < 2000; k += 2 {
		term.Mul(term, z2)
		t := nb().Quo(term, BI(k))
		if t.Sign() == 0 || t.MantExp(nil)-sum.MantExp(nil) < -(Prec+8) {
			break
		}
		sum.Add(sum, t)
	}
	return sum
}

// Ln returns the natural logarithm of x > 0 to ~Prec bits.
func Ln(x *big.Float) *big.Float {
	if x.Sign() <= 0 {
		panic("refmodel.Ln: non-positive argument")
	}
	m := nb()
	e := x.MantExp(m) // x = m * 2^e, m in [0.5,1)
	// bring m into [2/3, 4/3) so that |(m-1)/(m+1)| <= 1/5
	if m.Cmp(nb().Quo(BI(2), BI(3))) < 0 {
		m.Mul(m, BI(2))
		e--
	}
	z := nb().Quo(nb().Sub(m, BI(1)), nb().Add(m, BI(1)))
	r := nb().Mul(BI(2), atanhSeries(z))
	r.Add(r, nb().Mul(BI(e), ln2))
	return r
}

// Exp returns e^x to ~Prec bits (|x| up to a few thousand).
func Exp(x *big.Float) *big.Float {
	// x = k ln2 + r, |r| <= ln2/2; then halve r 16 times.
	kf := nb().Quo(x, ln2)
	k64, _ := kf.Int64()
	r := nb().Sub(x, nb().Mul(BI(int(k64)), ln2))
	const halvings = 16
	r.SetMantExp(r, -halvings)
	sum := BI(1)
	term := BI(1)
	for i := 1; i < 400; i++ {
		term.Mul(term, r)
		term.Quo(term, BI(i))
		if term.Sign() == 0 || term.MantExp(nil) < -(Prec+8) {
			break
		}
		sum.Add(sum, term)
	}
	for i := 0; i < halvings; i++ {
		sum.Mul(sum, sum)
	}
	return sum.SetMantExp(sum, int(k64))
}
