// Command worker executes simulated runs of one property. It is built at
// check time against the instrumented scratch copy of the library and driven
// by bin/verifctl:
//
//	worker batch  -prop C13 -seed 1 -tier quick -start 3 -stride 16 -n 120000 -out w3.jsonl
//	worker replay -file replay.json -out result.json
//
// Every run is a pure function of (seed, property, run index) and the code.
package main

import (
	"bufio"
	"encoding/binary"
	"encoding/json"
	"flag"
	"fmt"
	"os"
	"path/filepath"
	"runtime"
	"time"

	"verif.local/harness/simkit"
	"verif.local/simhook"
)

type violationRec struct {
	Type       string             `json:"type"`
	Run        uint64             `json:"run"`
	Violation  *simkit.Violation  `json:"violation"`
	Class      string             `json:"class"`
	Tape       simkit.Tape        `json:"tape"`
	OrigTape   simkit.Tape        `json:"orig_tape"`
	Shrink     simkit.ShrinkStats `json:"shrink"`
	History    []string           `json:"history"`
	SchedTrace []simhook.Switch   `json:"schedule_trace"`
	FaultTrace []string           `json:"fault_trace"`
	Policy     string             `json:"policy"`
	Steps      uint64             `json:"steps"`
	Digest     string             `json:"digest"`
	Race       bool               `json:"race_build"`
	Extra      map[string]any     `json:"extra,omitempty"`
	// the run indices this worker process executed before the violating run are
	// Start, Start+Stride, ... < Run (state a changed library keeps between calls
	// can make a finding depend on them: see the replay file's prelude)
	Seed   uint64 `json:"worker_seed"`
	Start  uint64 `json:"worker_start"`
	Stride uint64 `json:"worker_stride"`
	Procs  int    `json:"worker_gomaxprocs"` // environment knob the worker ran with
}

type summaryRec struct {
	Type            string           `json:"type"`
	Prop            string           `json:"prop"`
	Runs            uint64           `json:"runs"`
	Truncated       bool             `json:"truncated"`
	Violations      int              `json:"violations"`
	Steps           uint64           `json:"steps"`
	Switches        uint64           `json:"switches"`
	Probes          map[string]int64 `json:"probes"`
	Faults          map[string]int64 `json:"faults"`
	Policies        map[string]int64 `json:"policies"`
	Ops             map[string]int64 `json:"ops"`
	MaxErrOverBound float64          `json:"max_error_over_bound"`
	MaxErrWhere     string           `json:"max_error_where"`
	SitesSeen       []uint32         `json:"sites_seen"`
	Samples         []sample         `json:"samples"`
	HashFile        string           `json:"hash_file"`
	WallS           float64          `json:"wall_s"`
	Race            bool             `json:"race_build"`
	BudgetHits      uint64           `json:"budget_hits"`
	Digest          string           `json:"digest"` // xor/sum digest over per-run digests (determinism self-test)
}

type sample struct {
	Run     uint64   `json:"run"`
	Policy  string   `json:"policy,omitempty"`
	History []string `json:"history"`
}

func main() {
	if len(os.Args) < 2 {
		fmt.Fprintln(os.Stderr, "usage: worker batch|replay|digest ...")
		os.Exit(2)
	}
	loadSites()
	switch os.Args[1] {
	case "batch":
		batch(os.Args[2:])
	case "replay":
		replay(os.Args[2:])
	case "meta":
		fs := flag.NewFlagSet("meta", flag.ExitOnError)
		id := fs.String("prop", "", "property id")
		fs.Parse(os.Args[2:])
		p := lookup(*id)
		if p == nil {
			fmt.Fprintln(os.Stderr, "worker: unknown property", *id)
			os.Exit(2)
		}
		json.NewEncoder(os.Stdout).Encode(p.Meta())
	default:
		fmt.Fprintln(os.Stderr, "unknown subcommand", os.Args[1])
		os.Exit(2)
	}
}

func runDigest(r *simkit.RunResult) uint64 {
	h := simkit.NewHasher()
	h.Word(r.Hash)
	h.Word(r.Steps)
	h.Word(r.Switches)
	if r.Violation != nil {
		h.Str(r.Violation.Class())
	}
	if d, ok := r.Extra["result_digest"].(uint64); ok {
		h.Word(d)
	}
	return uint64(h)
}

func batch(args []string) {
	fs := flag.NewFlagSet("batch", flag.ExitOnError)
	propID := fs.String("prop", "", "property id")
	seed := fs.Uint64("seed", 1, "VERIF_SEED")
	tier := fs.String("tier", "quick", "quick|thorough")
	start := fs.Uint64("start", 0, "first run index")
	stride := fs.Uint64("stride", 1, "run index stride")
	n := fs.Uint64("n", 1000, "total number of runs in the batch (all workers)")
	out := fs.String("out", "", "output file (JSON lines)")
	hashFile := fs.String("hashes", "", "file receiving the 64-bit hashes of non-trivial runs")
	deadline := fs.Duration("deadline", 0, "wall-clock cap: truncates the batch, never a failure")
	maxViol := fs.Int("maxviol", 3, "stop after this many violations")
	digests := fs.String("digests", "", "optional: file receiving one line per run 'index digest' (determinism self-test)")
	noShrink := fs.Bool("noshrink", false, "do not minimise violations")
	fs.Parse(args)

	prop := lookup(*propID)
	if prop == nil {
		fmt.Fprintln(os.Stderr, "worker: unknown property", *propID)
		os.Exit(2)
	}
	of, err := os.Create(*out)
	if err != nil {
		fmt.Fprintln(os.Stderr, "worker:", err)
		os.Exit(2)
	}
	w := bufio.NewWriter(of)
	enc := json.NewEncoder(w)
	var hw *bufio.Writer
	if *hashFile != "" {
		hf, err := os.Create(*hashFile)
		if err != nil {
			fmt.Fprintln(os.Stderr, "worker:", err)
			os.Exit(2)
		}
		defer hf.Close()
		hw = bufio.NewWriter(hf)
		defer hw.Flush()
	}
	var dw *bufio.Writer
	if *digests != "" {
		df, err := os.Create(*digests)
		if err != nil {
			fmt.Fprintln(os.Stderr, "worker:", err)
			os.Exit(2)
		}
		defer df.Close()
		dw = bufio.NewWriter(df)
		defer dw.Flush()
	}

	t0 := time.Now()
	sum := summaryRec{Type: "summary", Prop: *propID, Race: simhook.RaceBuild, HashFile: *hashFile}
	var digest uint64
	first := true
	for i := *start; i < *n; i += *stride {
		if *deadline > 0 && time.Since(t0) > *deadline {
			sum.Truncated = true
			break
		}
		tape := simhook.NewGenTape(*seed, *propID, i)
		keep := len(sum.Samples) < 3 && (i/(*stride))%50 == 0
		opt := simkit.RunOpt{Tier: *tier, KeepHistory: keep, Counting: true, RunIndex: i, FirstInProc: first}
		first = false
		r := prop.Run(tape, opt)
		sum.Runs++
		sum.Steps += r.Steps
		sum.Switches += r.Switches
		if r.BudgetHit {
			sum.BudgetHits++
		}
		d := runDigest(r)
		digest = digest*0x100000001b3 ^ d
		if dw != nil {
			fmt.Fprintf(dw, "%d %016x\n", i, d)
		}
		if r.Nontrivial && hw != nil {
			var b [8]byte
			binary.LittleEndian.PutUint64(b[:], r.Hash)
			hw.Write(b[:])
		}
		if keep && r.Violation == nil {
			h := r.History
			if len(h) > 40 {
				h = append(append([]string(nil), h[:30]...), fmt.Sprintf("... (%d more events)", len(h)-30))
			}
			sum.Samples = append(sum.Samples, sample{Run: i, Policy: r.Policy, History: h})
		}
		if r.Violation != nil {
			sum.Violations++
			rec := minimise(prop, tape.Record(), r, i, *tier, *noShrink)
			rec.Seed, rec.Start, rec.Stride = *seed, *start, *stride
			rec.Procs = runtime.GOMAXPROCS(0)
			if err := enc.Encode(rec); err != nil {
				fmt.Fprintln(os.Stderr, "worker: cannot encode violation record:", err)
				os.Exit(2)
			}
			w.Flush()
			if sum.Violations >= *maxViol {
				sum.Truncated = true
				break
			}
		}
	}
	st := stats(prop)
	sum.Probes = st.Probes.Map()
	sum.Faults = st.Faults.Map()
	sum.Policies = st.Policies.Map()
	sum.Ops = st.Ops.Map()
	sum.MaxErrOverBound = st.MaxErrOverBound
	sum.MaxErrWhere = st.MaxErrWhere
	sum.SitesSeen = simhook.SitesSeen()
	sum.WallS = time.Since(t0).Seconds()
	sum.Digest = fmt.Sprintf("%016x", digest)
	if err := enc.Encode(sum); err != nil {
		fmt.Fprintln(os.Stderr, "worker: cannot encode summary:", err)
		os.Exit(2)
	}
	w.Flush()
	of.Close()
}

// minimise shrinks the tape of a violating run in-process and re-executes the
// result once more with the history recorded.
func minimise(prop simkit.Property, rec simkit.Tape, r *simkit.RunResult, run uint64, tier string, noShrink bool) violationRec {
	class := r.Violation.Class()
	opt := simkit.RunOpt{Tier: tier, RunIndex: run}
	test := func(c simkit.Tape) bool {
		rr := prop.Run(simhook.NewReplayTape(c), opt)
		return rr.Violation != nil && rr.Violation.Class() == class
	}
	min := rec
	var st simkit.ShrinkStats
	if !noShrink && !raceOnly(r) {
		min, st = simkit.Shrink(rec, test, 2000, 120*time.Second)
	}
	// final run of the minimised tape with history; normalise the tape to what was consumed
	opt.KeepHistory = true
	rt := simhook.NewReplayTape(min)
	fr := prop.Run(rt, opt)
	out := violationRec{Type: "violation", Run: run, Class: class, OrigTape: rec, Shrink: st, Race: simhook.RaceBuild}
	if fr.Violation != nil && fr.Violation.Class() == class {
		out.Tape = rt.Record()
		out.Violation = fr.Violation
		out.History = fr.History
		out.SchedTrace = fr.SchedTrace
		out.FaultTrace = fr.FaultTrace
		out.Policy = fr.Policy
		out.Steps = fr.Steps
		out.Extra = fr.Extra
	} else {
		// the minimised tape does not reproduce in-process (race findings are
		// confirmed in fresh subprocesses by the driver): report the original
		out.Tape = rec
		out.Violation = r.Violation
		out.History = r.History
		out.SchedTrace = r.SchedTrace
		out.FaultTrace = r.FaultTrace
		out.Policy = r.Policy
		out.Steps = r.Steps
		out.Extra = r.Extra
	}
	return out
}

// raceOnly: data-race findings cannot be re-detected in the same process (the
// detector suppresses repeated reports); the driver shrinks them in fresh
// subprocesses.
func raceOnly(r *simkit.RunResult) bool {
	return r.Violation != nil && r.Violation.Oracle == "C20/O3-data-race"
}

type replayFile struct {
	Property string      `json:"property"`
	Tape     simkit.Tape `json:"tape"`
	Tier     string      `json:"tier"`
	Run      uint64      `json:"run_index"`
	// Prelude: runs to re-execute (in generate mode) before the tape, recreating
	// what the worker process had executed before the violating run.
	Prelude *struct {
		Seed   uint64 `json:"seed"`
		First  uint64 `json:"first"`
		Stride uint64 `json:"stride"`
		Count  uint64 `json:"count"`
	} `json:"prelude,omitempty"`
}

func replay(args []string) {
	fs := flag.NewFlagSet("replay", flag.ExitOnError)
	file := fs.String("file", "", "replay file")
	out := fs.String("out", "", "result file (JSON)")
	fs.Parse(args)
	b, err := os.ReadFile(*file)
	if err != nil {
		fmt.Fprintln(os.Stderr, "worker:", err)
		os.Exit(2)
	}
	var rf replayFile
	if err := json.Unmarshal(b, &rf); err != nil {
		fmt.Fprintln(os.Stderr, "worker: bad replay file:", err)
		os.Exit(2)
	}
	prop := lookup(rf.Property)
	if prop == nil {
		fmt.Fprintln(os.Stderr, "worker: unknown property", rf.Property)
		os.Exit(2)
	}
	if rf.Tier == "" {
		rf.Tier = "quick"
	}
	if p := rf.Prelude; p != nil && p.Stride > 0 {
		for k := uint64(0); k < p.Count; k++ {
			idx := p.First + k*p.Stride
			prop.Run(simhook.NewGenTape(p.Seed, rf.Property, idx), simkit.RunOpt{Tier: rf.Tier, RunIndex: idx, FirstInProc: k == 0})
		}
	}
	rt := simhook.NewReplayTape(rf.Tape)
	r := prop.Run(rt, simkit.RunOpt{Tier: rf.Tier, KeepHistory: true, RunIndex: rf.Run, FirstInProc: rf.Prelude == nil})
	rec := violationRec{Type: "replay", Run: rf.Run, Violation: r.Violation, Tape: rt.Record(), History: r.History,
		SchedTrace: r.SchedTrace, FaultTrace: r.FaultTrace, Policy: r.Policy, Steps: r.Steps, Race: simhook.RaceBuild,
		Digest: fmt.Sprintf("%016x", runDigest(r)), Extra: r.Extra}
	if r.Violation != nil {
		rec.Class = r.Violation.Class()
	}
	jb, _ := json.MarshalIndent(rec, "", " ")
	if *out != "" {
		os.WriteFile(*out, jb, 0o644)
	} else {
		os.Stdout.Write(jb)
		fmt.Println()
	}
}

// loadSites reads the instrumenter's site table (report.json next to the
// worker binary) so that messages can name file:line instead of a site id.
func loadSites() {
	exe, err := os.Executable()
	if err != nil {
		return
	}
	b, err := os.ReadFile(filepath.Join(filepath.Dir(exe), "report.json"))
	if err != nil {
		return
	}
	var rep struct {
		Sites []struct {
			ID   int    `json:"id"`
			File string `json:"file"`
			Line int    `json:"line"`
		} `json:"sites"`
		SyncSites []string `json:"sync_sites"`
	}
	if json.Unmarshal(b, &rep) != nil {
		return
	}
	simhook.SyncSites = len(rep.SyncSites)
	names := make([]string, len(rep.Sites)+1)
	for _, s := range rep.Sites {
		if s.ID < len(names) {
			names[s.ID] = fmt.Sprintf("%s:%d", s.File, s.Line)
		}
	}
	simhook.SiteNames = func(id uint32) string {
		if int(id) < len(names) && names[id] != "" {
			return names[id]
		}
		return fmt.Sprintf("site #%d", id)
	}
}
