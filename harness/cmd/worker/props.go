package main

import (
	"verif.local/harness/c09"
	"verif.local/harness/c13"
	"verif.local/harness/c14"
	"verif.local/harness/c18"
	"verif.local/harness/c20"
	"verif.local/harness/simkit"
)

type statser interface{ Stats() *simkit.Stats }

var registry = map[string]func() simkit.Property{
	"C09": func() simkit.Property { return c09.New() },
	"C13": func() simkit.Property { return c13.New() },
	"C14": func() simkit.Property { return c14.New() },
	"C18": func() simkit.Property { return c18.New() },
	"C20": func() simkit.Property { return c20.New() },
}

var instances = map[string]simkit.Property{}

func lookup(id string) simkit.Property {
	if p, ok := instances[id]; ok {
		return p
	}
	mk, ok := registry[id]
	if !ok {
		return nil
	}
	p := mk()
	instances[id] = p
	return p
}

func stats(p simkit.Property) *simkit.Stats {
	return p.(statser).Stats()
}
