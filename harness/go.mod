module verif.local/harness

go 1.22

require (
	github.com/aclements/go-moremath v0.0.0
	verif.local/simhook v0.0.0
)

// Layout at check time (written by bin/verifctl into a mktemp dir):
//   <scratch>/repo     instrumented copy of /repo's working tree
//   <scratch>/simhook  copy of /verif/simhook
//   <scratch>/harness  copy of this module
replace github.com/aclements/go-moremath => ../repo

replace verif.local/simhook => ../simhook
