// Package c09 simulates the owner of a pool of stats.Sample objects: create,
// Sort, Copy, caller mutation, Sorted-flag, permutation and weight-expansion
// events interleaved with queries, every queried statistic compared with the
// exact (400-bit) value of the object's multiset model, and every object other
// than an event's target required to stay bit-identical (DESIGN.md §4.4).
package c09

import (
	"fmt"
	"math"
	"math/big"
	"sort"

	"github.com/aclements/go-moremath/stats"
	"github.com/aclements/go-moremath/vec"
	"verif.local/harness/refmodel"
	"verif.local/harness/simkit"
	"verif.local/simhook"
)

type Prop struct{ St *simkit.Stats }

func New() *Prop                     { return &Prop{St: simkit.NewStats()} }
func (p *Prop) ID() string           { return "C09" }
func (p *Prop) Stats() *simkit.Stats { return p.St }

func (p *Prop) Meta() simkit.Meta {
	return simkit.Meta{
		Rule: "one run = one drawn history of up to 60 events over a pool of up to 6 stats.Sample objects: create (0-200 values: plain, offset up to 1e9 x spread, ties, integers, positive geometric; weights absent / non-negative integers incl. zeros / positive reals; optionally ascending with Sorted set and zero weights at the ends), Sort, Copy, caller mutation of one element, set Sorted on ascending data, permute, expand integer weights into repetitions, queries Mean/Variance/StdDev/GeoMean/Sum/Weight/Bounds (method and slice-level forms) and the vec helpers. After every event every object other than the event's target must be bit-identical to its shadow copy; every queried statistic is compared with the exact value of the object's (value,weight) multiset. distinct = distinct hashes of the event-kind sequence with object flags; non-trivial = at least one Sort/Copy/mutation/permutation/expansion between queries",
		Real: []string{"stats.Sample.{Mean,Variance,StdDev,GeoMean,Sum,Weight,Bounds,Sort,Copy}", "stats.{Mean,Variance,StdDev,GeoMean,Bounds}", "vec.{Sum,Linspace,Logspace,Map,Vectorize,Concat}"},
		Stub: []string{"owner of the data (event source)"},
		Assumptions: []string{
			"values finite with |x| in [1e-6,1e12] or 0, or (family wide-positive) positive over the whole double range 1e-300..1e300, queried only for statistics that involve no squares; weights finite, non-negative, with positive total, optionally all scaled by 2^(+-400) or 2^(+-900) - but extreme weights are not combined with wide-range values (the product (x-m)*w in the incremental weighted mean overflows there: an overflow corner of the formula, not what the statement is about)",
			"unweighted-only methods (Variance, StdDev) are not called on weighted samples (documented panic); weighted GeoMean is not called with non-positive values",
			"the Sorted flag is only ever set on data that is ascending",
			"nothing is demanded of Mean/Variance/Bounds of an empty sample or of Variance with fewer than 2 values beyond not panicking (the exact value is undefined)",
			"tolerances derived from the data: sum 8(n+4)eps*sum|wx|, variance 8(n+4)^1.5*eps*sigma*sqrt(sigma^2+mean-square), mean 8(n+4)eps*max|x| (the incremental mean's error is proportional to the largest value carrying weight), geometric mean relative 8(n+4)eps*(1+max|ln x|); order independence is checked as 'every order within the bound of the exact value', never as bit equality between two orders",
		},
		FaultKinds:    []string{"caller_mutation_after_copy"},
		NotApplicable: []string{"message loss/duplication/reordering", "partitions", "crash-restart with durable state", "torn/lost disk writes", "disk full", "clock skew/jumps", "allocation or syscall failure"},
		RunsQuick:     800000, RunsThorough: 8000000,
	}
}

type obj struct {
	wide        bool // values span the whole double range: squares overflow, so no Variance/StdDev
	s           *stats.Sample
	shXs        []float64 // shadow copy (harness-owned)
	shWs        []float64
	shNilW      bool
	shSort      bool
	acc         *refmodel.Acc // cached exact summary of the multiset (nil = stale)
	lnMean      *big.Float    // cached exact weighted mean of ln x
	wkind       int           // 0 none, 1 integer, 2 real
	nonpos      bool
	nonposValid bool
	// spare capacity behind Xs / Weights as handed to the library (caller-side
	// layout: the slices may be windows into a larger buffer); filled with a
	// sentinel that nothing may overwrite
	tailXs, tailWs []float64
}

const capSentinel = -31337.5

func withTail(xs []float64, extra int) (s, tail []float64) {
	buf := make([]float64, len(xs)+extra)
	copy(buf, xs)
	tail = buf[len(xs):]
	for i := range tail {
		tail[i] = capSentinel
	}
	return buf[:len(xs)], tail
}

func tailIntact(t []float64) bool {
	for _, v := range t {
		if v != capSentinel {
			return false
		}
	}
	return true
}

type ctx struct {
	p       *Prop
	g       simkit.G
	opt     simkit.RunOpt
	pool    []*obj
	hist    []string
	hash    simkit.Hasher
	viol    *simkit.Violation
	nontriv bool
	changed bool // a mutating event happened since the last query
}

func (c *ctx) logf(format string, a ...any) {
	if c.opt.KeepHistory {
		c.hist = append(c.hist, fmt.Sprintf(format, a...))
	}
}
func (c *ctx) probe(name string) {
	if c.opt.Counting {
		c.p.St.Probes.Inc(name)
	}
}
func (c *ctx) op(name string) {
	if c.opt.Counting {
		c.p.St.Ops.Inc(name)
	}
}
func (c *ctx) fail(oracle, op, sig, format string, a ...any) {
	if c.viol == nil {
		c.viol = &simkit.Violation{Property: "C09", Oracle: "C09/" + oracle, Op: op, Sig: sig, Seq: simhook.Seq(), Message: fmt.Sprintf(format, a...)}
	}
}
func (c *ctx) try(op, sig string, f func()) bool {
	simhook.BeginOp()
	pv, _ := simkit.Try(f)
	if pv != nil {
		if a, ok := simkit.IsAbort(pv); ok {
			panic(a)
		}
		c.fail("panic", op, sig, "%s panicked: %s", op, simkit.PanicString(pv))
		return false
	}
	return true
}

func (o *obj) flags() string {
	f := []byte("u")
	if o.wkind == 1 {
		f[0] = 'i'
	} else if o.wkind == 2 {
		f[0] = 'r'
	}
	if o.s.Sorted {
		f = append(f, 'S')
	}
	if len(o.s.Xs) == 0 {
		f = append(f, '0')
	} else if len(o.s.Xs) == 1 {
		f = append(f, '1')
	}
	return string(f)
}

func (o *obj) refresh() {
	o.shXs = append(o.shXs[:0], o.s.Xs...)
	o.shWs = append(o.shWs[:0], o.s.Weights...)
	o.shNilW = o.s.Weights == nil
	o.shSort = o.s.Sorted
}

func (o *obj) stale() {
	o.acc, o.lnMean = nil, nil
	o.nonposValid = false
}

// The model is computed from the harness-owned shadow copy, never from the
// object's live slices: if the library corrupts an object behind the harness's
// back (aliasing), the model stays what the history says it should be and the
// comparison fails as a violation instead of the harness tripping over it.
func (o *obj) modelWeights() []float64 {
	if o.shNilW {
		return nil
	}
	return o.shWs
}

// hasNonpos: a non-positive value that counts (has non-zero weight). A
// non-positive value with weight zero is "repeated zero times": it must be
// ignored by the weighted GeoMean like by everything else.
func (o *obj) hasNonpos() bool {
	if !o.nonposValid {
		o.nonpos = false
		ws := o.modelWeights()
		for i, x := range o.shXs {
			if x <= 0 && (ws == nil || ws[i] != 0) {
				o.nonpos = true
			}
		}
		o.nonposValid = true
	}
	return o.nonpos
}

func bitsEq(a, b []float64) bool {
	if len(a) != len(b) {
		return false
	}
	for i := range a {
		if math.Float64bits(a[i]) != math.Float64bits(b[i]) {
			return false
		}
	}
	return true
}

// untouched checks that every object except target is bit-identical to its shadow.
func (c *ctx) untouched(target int, op string) {
	for k, o := range c.pool {
		if !tailIntact(o.tailXs) || !tailIntact(o.tailWs) {
			c.fail("aliasing", op, "spare-capacity", "%s wrote into the spare capacity behind obj%d's Xs/Weights (the caller's buffer beyond the slice)", op, k)
			return
		}
		if k == target {
			continue
		}
		if !bitsEq(o.s.Xs, o.shXs) || (o.s.Weights == nil) != o.shNilW || !bitsEq(o.s.Weights, o.shWs) || o.s.Sorted != o.shSort {
			c.fail("aliasing", op, "other-object-changed", "%s on object %d changed object %d (objects must share no storage)", op, target, k)
			return
		}
	}
}

func (o *obj) exact() *refmodel.Acc {
	if o.acc == nil {
		a := refmodel.NewAcc()
		ws := o.modelWeights()
		for i, x := range o.shXs {
			w := 1.0
			if ws != nil {
				w = ws[i]
			}
			a.AddW(x, w)
		}
		o.acc = a
	}
	return o.acc
}

// exactLnMean returns Σ w ln x / Σ w (all x with w>0 must be positive).
func (o *obj) exactLnMean() *big.Float {
	if o.lnMean != nil {
		return o.lnMean
	}
	prec := uint(refmodel.Prec)
	sum := new(big.Float).SetPrec(prec)
	W := new(big.Float).SetPrec(prec)
	if o.wkind != 2 {
		// integer multiplicities: ln of the exact product, taken in chunks
		prod := new(big.Float).SetPrec(prec).SetInt64(1)
		cnt := 0
		flush := func() {
			sum.Add(sum, refmodel.Ln(prod))
			prod.SetInt64(1)
			cnt = 0
		}
		ws := o.modelWeights()
		for i, x := range o.shXs {
			w := 1
			if ws != nil {
				w = int(ws[i])
			}
			if w == 0 {
				continue
			}
			bx := refmodel.BF(x)
			for k := 0; k < w; k++ {
				prod.Mul(prod, bx)
				cnt++
				if cnt >= 16 {
					flush()
				}
			}
			W.Add(W, refmodel.BI(w))
		}
		flush()
	} else {
		for i, x := range o.shXs {
			w := refmodel.BF(o.shWs[i])
			if w.Sign() == 0 {
				continue
			}
			sum.Add(sum, new(big.Float).SetPrec(prec).Mul(w, refmodel.Ln(refmodel.BF(x))))
			W.Add(W, w)
		}
	}
	o.lnMean = new(big.Float).SetPrec(prec).Quo(sum, W)
	return o.lnMean
}

// ---- generation ----

func (c *ctx) genXs(n int) ([]float64, string) {
	g := c.g
	xs := make([]float64, n)
	fam := g.Pick(6, 6, 4, 4, 4, 1)
	name := []string{"plain", "offset", "ties", "ints", "geometric", "wide-positive"}[fam]
	switch fam {
	case 0:
		scale := math.Pow(10, float64(g.Range(-3, 6)))
		for i := range xs {
			xs[i] = g.Sym() * scale
			if xs[i] != 0 && math.Abs(xs[i]) < 1e-6 {
				xs[i] = 1e-6
			}
		}
	case 1:
		spread := math.Pow(10, float64(g.Range(-3, 2)))
		re := g.Range(0, 9)
		off := spread * math.Pow(10, float64(re))
		if g.Chance(1, 3) {
			off = -off
		}
		for i := range xs {
			xs[i] = off + spread*g.Sym()
		}
		if re >= 8 {
			c.probe("offset_over_spread_ge_1e8")
		}
	case 2:
		k := g.Range(1, 4)
		vals := make([]float64, k)
		for i := range vals {
			vals[i] = g.Uniform(0.001, 1000)
			if g.Chance(1, 5) {
				vals[i] = -vals[i]
			}
		}
		for i := range xs {
			xs[i] = vals[g.Intn(k)]
		}
	case 3:
		lo := g.Range(-5, 1)
		hi := g.Range(1, 20)
		for i := range xs {
			xs[i] = float64(g.Range(lo, hi))
		}
	case 4:
		for i := range xs {
			xs[i] = math.Pow(10, g.Uniform(-6, 12))
		}
	case 5:
		// positive values over the whole double range: "any finite data". Only the
		// statistics that involve no squares are queried on these (see query).
		top := 300.0
		if g.Chance(1, 4) {
			top = 308.2 // up to ~1.6e308: sums of two or more such values exceed the double range
		}
		for i := range xs {
			xs[i] = math.Pow(10, g.Uniform(-300, top))
			if math.IsInf(xs[i], 0) {
				xs[i] = math.MaxFloat64
			}
		}
		c.probe("wide_magnitude_data")
	}
	return xs, name
}

func (c *ctx) create() {
	g := c.g
	var n int
	switch g.Pick(2, 4, 3, 1) {
	case 0:
		n = g.Range(0, 2)
	case 1:
		n = g.Range(0, 12)
	case 2:
		n = g.BoundarySize(0, 70)
	default:
		n = g.BoundarySize(0, 200)
	}
	if g.Chance(1, 40) {
		// beyond the stated 0..200 now and then: thresholds at which an
		// implementation might switch algorithm (256, 512, 1024)
		n = []int{255, 256, 257, 511, 512, 513, 1023, 1024, 1025}[g.Intn(9)]
		c.probe("sample_size_beyond_200")
	}
	xs, fam := c.genXs(n)
	o := &obj{s: &stats.Sample{Xs: xs}, wide: fam == "wide-positive"}
	o.wkind = g.Pick(3, 3, 2)
	if o.wide {
		for _, x := range xs {
			if x > 1e300 {
				// values at the very top of the range stay unweighted: (x-m)*w in the
				// incremental weighted mean overflows there (an overflow corner of the
				// formula, like extreme weights with wide values)
				o.wkind = 0
			}
		}
	}
	if o.wkind == 1 {
		ws := make([]float64, n)
		tot := 0.0
		for i := range ws {
			ws[i] = float64(g.Pick(2, 3, 2, 1, 1))
			tot += ws[i]
		}
		if g.Chance(1, 3) {
			// every non-positive value gets weight zero: the sample then equals an
			// all-positive unweighted sample and its GeoMean is defined
			tot = 0
			for i := range ws {
				if xs[i] <= 0 {
					ws[i] = 0
				}
				tot += ws[i]
			}
		}
		if tot == 0 && n > 0 {
			ws[g.Intn(n)] = 1
		}
		o.s.Weights = ws
	} else if o.wkind == 2 {
		ws := make([]float64, n)
		for i := range ws {
			ws[i] = g.Uniform(0.01, 10)
		}
		o.s.Weights = ws
	}
	if o.s.Weights != nil && !o.wide && g.Chance(1, 8) {
		// weights are only meaningful up to a common factor: scale them all by an
		// extreme (but exactly representable) power of two
		// (including the magnitudes at which integer conversions change behaviour:
		// 2^31, 2^32, 2^53, 2^61..2^64)
		sc := math.Ldexp(1, []int{400, -400, 900, -900, 31, 32, 52, 53, 61, 62, 63, 64, -61, -64}[g.Intn(14)])
		for i := range o.s.Weights {
			o.s.Weights[i] *= sc
		}
		if o.wkind == 1 {
			o.wkind = 2 // no longer small integers: repetition/expansion does not apply
		}
		c.probe("weights_scaled_by_extreme_power_of_two")
	}
	if g.Chance(1, 10) && n >= 2 {
		// strictly or weakly descending input (weights stay attached): the mirror
		// image of the already-sorted fast path
		idx := make([]int, n)
		for i := range idx {
			idx[i] = i
		}
		xs0 := o.s.Xs
		sort.SliceStable(idx, func(a, b int) bool { return xs0[idx[a]] > xs0[idx[b]] })
		nx := make([]float64, n)
		var nw []float64
		if o.s.Weights != nil {
			nw = make([]float64, n)
		}
		for i, j := range idx {
			nx[i] = xs0[j]
			if nw != nil {
				nw[i] = o.s.Weights[j]
			}
		}
		o.s.Xs, o.s.Weights = nx, nw
		c.probe("created_descending")
	}
	asc := g.Chance(1, 4)
	if asc {
		// created ascending with the Sorted flag set, weights (and any zero weights) in place
		idx := make([]int, n)
		for i := range idx {
			idx[i] = i
		}
		sort.SliceStable(idx, func(a, b int) bool { return xs[idx[a]] < xs[idx[b]] })
		nx := make([]float64, n)
		var nw []float64
		if o.s.Weights != nil {
			nw = make([]float64, n)
		}
		for i, j := range idx {
			nx[i] = xs[j]
			if nw != nil {
				nw[i] = o.s.Weights[j]
			}
		}
		if nw != nil && o.wkind == 1 && n >= 3 && g.Chance(1, 2) {
			nw[0] = 0
			nw[n-1] = 0
			if nw[1] == 0 && n == 3 {
				nw[1] = 1
			}
			tot := 0.0
			for _, w := range nw {
				tot += w
			}
			if tot == 0 {
				nw[n/2] = 2
			}
			c.probe("sorted_weighted_with_zero_weights_at_ends")
		}
		o.s.Xs, o.s.Weights, o.s.Sorted = nx, nw, true
	}
	if g.Chance(1, 4) {
		// the caller's slices are windows into larger buffers: spare capacity behind them
		o.s.Xs, o.tailXs = withTail(o.s.Xs, 3)
		if o.s.Weights != nil {
			o.s.Weights, o.tailWs = withTail(o.s.Weights, 3)
		}
		c.probe("object_with_spare_capacity")
	}
	o.stale()
	o.refresh()
	if len(c.pool) >= 6 {
		k := g.Intn(len(c.pool))
		c.pool[k] = o
		c.logf("obj%d = create(n=%d,%s,%s)%s", k, n, fam, o.flags(), ascStr(asc))
	} else {
		c.pool = append(c.pool, o)
		c.logf("obj%d = create(n=%d,%s,%s)%s", len(c.pool)-1, n, fam, o.flags(), ascStr(asc))
	}
	c.hash.Str("N" + o.flags())
	if n == 0 {
		c.probe("empty_object")
	}
	if n == 1 {
		c.probe("single_element_object")
	}
}

func ascStr(a bool) string {
	if a {
		return " ascending+Sorted"
	}
	return ""
}

type pair struct{ x, w float64 }

func pairs(xs, ws []float64) []pair {
	ps := make([]pair, len(xs))
	for i := range xs {
		ps[i].x = xs[i]
		if ws != nil {
			ps[i].w = ws[i]
		}
	}
	sort.Slice(ps, func(a, b int) bool {
		if ps[a].x != ps[b].x {
			return ps[a].x < ps[b].x
		}
		return ps[a].w < ps[b].w
	})
	return ps
}

func (c *ctx) sortEv(k int) {
	o := c.pool[k]
	c.logf("obj%d.Sort() [%s]", k, o.flags())
	c.hash.Str("S" + o.flags())
	c.op("Sort")
	before := pairs(o.shXs, o.s.Weights)
	hadW := o.s.Weights != nil
	ties := false
	for i := 1; i < len(before); i++ {
		if before[i].x == before[i-1].x {
			ties = true
		}
	}
	if hadW && ties {
		c.probe("sort_weighted_with_ties")
	}
	var ret *stats.Sample
	if !c.try("Sort", o.flags(), func() { ret = o.s.Sort() }) {
		return
	}
	c.changed = true
	c.nontriv = true
	if ret != o.s {
		c.fail("sort", "Sort", "return", "Sort did not return its receiver")
		return
	}
	if !o.s.Sorted {
		c.fail("sort", "Sort", "flag", "Sort did not set Sorted")
		return
	}
	if (o.s.Weights != nil) != hadW || len(o.s.Xs) != len(before) || (hadW && len(o.s.Weights) != len(before)) {
		c.fail("sort", "Sort", "shape", "Sort changed the shape of the sample")
		return
	}
	for i := 1; i < len(o.s.Xs); i++ {
		if o.s.Xs[i] < o.s.Xs[i-1] {
			c.fail("sort", "Sort", "order", "after Sort Xs[%d]=%v < Xs[%d]=%v", i, o.s.Xs[i], i-1, o.s.Xs[i-1])
			return
		}
	}
	after := pairs(o.s.Xs, o.s.Weights)
	for i := range after {
		if after[i] != before[i] {
			c.fail("sort", "Sort", "pairs", "Sort did not keep each weight attached to its value: the (value,weight) multiset changed (e.g. %v became %v)", before[i], after[i])
			return
		}
	}
	o.refresh() // same multiset: exact caches stay valid
	c.untouched(k, "Sort")
}

func (c *ctx) copyEv(k int) {
	o := c.pool[k]
	c.logf("obj%d.Copy() [%s]", k, o.flags())
	c.hash.Str("C" + o.flags())
	c.op("Copy")
	var cp *stats.Sample
	if !c.try("Copy", o.flags(), func() { cp = o.s.Copy() }) {
		return
	}
	c.nontriv = true
	if cp == nil || cp == o.s || !bitsEq(cp.Xs, o.s.Xs) || (cp.Weights == nil) != (o.s.Weights == nil) || !bitsEq(cp.Weights, o.s.Weights) || cp.Sorted != o.s.Sorted {
		c.fail("copy", "Copy", "contents", "Copy is not equal to the original")
		return
	}
	n := &obj{s: cp, wkind: o.wkind, acc: nil, wide: o.wide}
	n.stale()
	n.refresh()
	if len(c.pool) >= 6 {
		// replace some object other than the original
		r := (k + 1 + c.g.Intn(len(c.pool)-1)) % len(c.pool)
		c.pool[r] = n
		c.logf("  -> obj%d", r)
	} else {
		c.pool = append(c.pool, n)
		c.logf("  -> obj%d", len(c.pool)-1)
	}
	c.untouched(-1, "Copy")
}

// mutate is the caller writing to one element of an object (what a Copy must
// be isolated from).
func (c *ctx) mutate(k int) {
	o := c.pool[k]
	n := len(o.s.Xs)
	if n == 0 {
		return
	}
	i := c.g.Intn(n)
	which := "Xs"
	if o.s.Weights != nil && c.g.Chance(1, 3) {
		which = "Weights"
		if o.wkind == 1 {
			o.s.Weights[i] = float64(c.g.Range(1, 4))
		} else {
			o.s.Weights[i] = c.g.Uniform(0.01, 10)
		}
	} else {
		if o.wide {
			o.s.Xs[i] = math.Pow(10, c.g.Uniform(-300, 300))
		} else if o.hasNonpos() || c.g.Chance(1, 4) {
			o.s.Xs[i] = float64(c.g.Range(-3, 9))
		} else {
			o.s.Xs[i] = c.g.Uniform(0.001, 1000)
		}
		o.s.Sorted = false
	}
	c.logf("caller writes obj%d.%s[%d] [%s]", k, which, i, o.flags())
	c.hash.Str("W" + which + o.flags())
	if c.opt.Counting {
		c.p.St.Faults.Inc("caller_mutation_after_copy")
	}
	c.changed = true
	c.nontriv = true
	o.stale()
	o.refresh()
	c.untouched(k, "caller mutation")
}

// grow is the caller appending one (value, weight) to an object it owns - the
// most ordinary way to keep using a sample, including one obtained from Copy.
func (c *ctx) grow(k int) {
	o := c.pool[k]
	if len(o.s.Xs) > 300 {
		return
	}
	var v float64
	switch {
	case o.wide:
		v = math.Pow(10, c.g.Uniform(-300, 300))
	case o.hasNonpos():
		v = float64(c.g.Range(-3, 9))
	default:
		v = c.g.Uniform(0.001, 1000)
	}
	if o.tailXs != nil || o.tailWs != nil {
		// the harness itself put sentinel-filled spare capacity behind these slices:
		// step out of it before appending (the sentinel check ends here)
		o.tailXs, o.tailWs = nil, nil
		o.s.Xs = o.s.Xs[:len(o.s.Xs):len(o.s.Xs)]
		if o.s.Weights != nil {
			o.s.Weights = o.s.Weights[:len(o.s.Weights):len(o.s.Weights)]
		}
	}
	// otherwise a plain append, exactly as a caller would write it: if the library
	// handed out Xs with spare capacity that overlaps other live data, this is
	// where it shows
	o.s.Xs = append(o.s.Xs, v)
	if o.s.Weights != nil {
		w := c.g.Uniform(0.01, 10)
		if o.wkind == 1 {
			w = float64(c.g.Range(1, 4))
		}
		o.s.Weights = append(o.s.Weights, w)
	}
	o.s.Sorted = false
	c.logf("caller appends a value to obj%d [%s]", k, o.flags())
	c.hash.Str("G" + o.flags())
	c.probe("caller_appends_to_object")
	c.changed = true
	c.nontriv = true
	// the shadow grows by exactly the appended pair: anything else the append
	// disturbed (storage shared between Xs and Weights, or with another object)
	// shows as a difference between object and shadow
	o.shXs = append(o.shXs, v)
	if o.s.Weights != nil {
		o.shWs = append(o.shWs, o.s.Weights[len(o.s.Weights)-1])
	}
	o.shSort = false
	o.stale()
	if !bitsEq(o.s.Xs, o.shXs) || !bitsEq(o.s.Weights, o.shWs) {
		c.fail("aliasing", "append", "self-aliasing", "appending a value to obj%d changed other elements of the same object (its Xs and Weights must not share storage)", k)
		return
	}
	c.untouched(k, "caller append")
}

func (c *ctx) setSorted(k int) {
	o := c.pool[k]
	if o.s.Sorted || !sort.Float64sAreSorted(o.s.Xs) {
		return
	}
	c.logf("caller sets obj%d.Sorted (data is ascending) [%s]", k, o.flags())
	c.hash.Str("F" + o.flags())
	o.s.Sorted = true
	o.refresh()
	c.changed = true
}

func (c *ctx) permute(k int) {
	o := c.pool[k]
	n := len(o.s.Xs)
	if n < 2 {
		return
	}
	p := c.g.Perm(n)
	nx := make([]float64, n)
	var nw []float64
	if o.s.Weights != nil {
		nw = make([]float64, n)
	}
	for i, j := range p {
		nx[i] = o.s.Xs[j]
		if nw != nil {
			nw[i] = o.s.Weights[j]
		}
	}
	copy(o.s.Xs, nx)
	if nw != nil {
		copy(o.s.Weights, nw)
	}
	o.s.Sorted = false
	c.logf("caller permutes obj%d [%s]", k, o.flags())
	c.hash.Str("P" + o.flags())
	o.refresh() // same multiset
	c.changed = true
	c.nontriv = true
}

// expand turns integer weights into repetitions (a new unweighted object).
func (c *ctx) expand(k int) {
	o := c.pool[k]
	if o.wkind != 1 {
		return
	}
	var xs []float64
	for i, x := range o.s.Xs {
		for r := 0; r < int(o.s.Weights[i]); r++ {
			xs = append(xs, x)
		}
	}
	if len(xs) > 800 {
		return
	}
	if xs == nil {
		xs = []float64{}
	}
	n := &obj{s: &stats.Sample{Xs: xs}, wide: o.wide}
	n.stale()
	n.refresh()
	c.logf("obj%d expanded into repetitions (%d values)", k, len(xs))
	c.hash.Str("X")
	c.probe("integer_weights_expanded")
	c.nontriv = true
	if len(c.pool) >= 6 {
		c.pool[(k+1)%len(c.pool)] = n
	} else {
		c.pool = append(c.pool, n)
	}
}

// ---- queries ----

func (c *ctx) cmpAbs(stat, sig string, k int, got float64, want *big.Float, tol float64) {
	if wf := refmodel.F(want); math.IsInf(wf, 0) {
		// the exact value lies beyond the double range: its correctly rounded
		// double is an infinity of that sign
		c.probe("exact_value_beyond_double_range")
		if got != wf {
			c.fail(stat, statOp(stat), sig+"/overflow", "obj%d [%s] n=%d: %s=%v, the exact value exceeds the double range and rounds to %v", k, sig, len(c.pool[k].s.Xs), stat, got, wf)
		}
		return
	}
	err := refmodel.AbsErr(got, want)
	if c.opt.Counting {
		c.p.St.Ratio(err/tol, fmt.Sprintf("%s [%s]", stat, sig))
	}
	if !(err <= tol) {
		c.fail(stat, statOp(stat), sig, "obj%d [%s] n=%d: %s=%v, exact %v: |error| %.3g exceeds the bound %.3g", k, sig, len(c.pool[k].s.Xs), stat, got, refmodel.F(want), err, tol)
	}
}

func statOp(stat string) string { return stat }

func (c *ctx) query(k int) {
	o := c.pool[k]
	s := o.s
	n := len(s.Xs)
	sig := o.flags()
	weighted := s.Weights != nil
	q := c.g.Pick(3, 3, 2, 2, 2, 1, 3)
	names := []string{"Mean", "Variance", "StdDev", "GeoMean", "Sum", "Weight", "Bounds"}
	name := names[q]
	sliceForm := !weighted && c.g.Chance(1, 2) && q != 4 && q != 5
	c.logf("query obj%d.%s%s [%s]", k, name, map[bool]string{true: " (slice form)", false: ""}[sliceForm], sig)
	c.hash.Str("Q" + name + sig)
	c.op(name)
	if c.changed {
		c.changed = false
	}
	if s.Sorted && weighted && n > 0 && (s.Weights[0] == 0 || s.Weights[n-1] == 0) {
		c.probe("query_sorted_weighted_leading_or_trailing_zero_weight")
	}
	var got, got2 float64
	call := func(f func()) bool { return c.try(name, sig, f) }
	switch q {
	case 0:
		if !call(func() {
			if sliceForm {
				got = stats.Mean(s.Xs)
			} else {
				got = s.Mean()
			}
		}) || n == 0 {
			return
		}
		a := o.exact()
		if a.W.Sign() == 0 {
			return
		}
		c.cmpAbs("Mean", sig, k, got, a.Mean(), a.TolMean())
	case 1, 2:
		if weighted && n > 0 {
			return // documented: not implemented for weighted samples
		}
		if o.wide {
			return // squares of these values overflow: the variance is not representable
		}
		if !call(func() {
			switch {
			case q == 1 && sliceForm:
				got = stats.Variance(s.Xs)
			case q == 1:
				got = s.Variance()
			case sliceForm:
				got = stats.StdDev(s.Xs)
			default:
				got = s.StdDev()
			}
		}) || n < 2 {
			return
		}
		a := o.exact()
		if q == 1 {
			c.cmpAbs("Variance", sig, k, got, a.Var(), a.TolVar())
		} else {
			c.cmpAbs("StdDev", sig, k, got, refmodel.Sqrt(a.Var()), a.TolStd())
		}
	case 3:
		if weighted && o.hasNonpos() {
			return
		}
		if n > 60 && c.g.Chance(2, 3) {
			return // the exact logarithms are expensive: sample the large ones
		}
		if !call(func() {
			if sliceForm {
				got = stats.GeoMean(s.Xs)
			} else {
				got = s.GeoMean()
			}
		}) || n == 0 {
			return
		}
		if weighted {
			for i, x := range s.Xs {
				if x <= 0 && s.Weights[i] == 0 {
					c.probe("geomean_weighted_with_zero_weight_nonpositive_value")
					break
				}
			}
		}
		if o.hasNonpos() {
			c.probe("geomean_nonpositive")
			if !math.IsNaN(got) {
				c.fail("GeoMean", "GeoMean", sig+"/nonpositive", "obj%d: GeoMean=%v for unweighted data containing a non-positive value, want NaN", k, got)
			}
			return
		}
		a := o.exact()
		if a.W.Sign() == 0 {
			return
		}
		lm := o.exactLnMean()
		want := refmodel.Exp(lm)
		maxAbsLn := 0.0
		for i, x := range s.Xs {
			if weighted && s.Weights[i] == 0 {
				continue
			}
			if l := math.Abs(math.Log(x)); l > maxAbsLn {
				maxAbsLn = l
			}
		}
		tol := 8 * float64(n+4) * refmodel.Eps * (1 + maxAbsLn) * refmodel.F(want)
		c.cmpAbs("GeoMean", sig, k, got, want, tol)
	case 4:
		if !call(func() { got = s.Sum() }) {
			return
		}
		a := o.exact()
		c.cmpAbs("Sum", sig, k, got, a.S1, a.TolSum())
	case 5:
		if !call(func() { got = s.Weight() }) {
			return
		}
		a := o.exact()
		c.cmpAbs("Weight", sig, k, got, a.W, 8*float64(n+4)*refmodel.Eps*a.SumAbsW+math.SmallestNonzeroFloat64)
	case 6:
		if !call(func() {
			if sliceForm {
				got, got2 = stats.Bounds(s.Xs)
			} else {
				got, got2 = s.Bounds()
			}
		}) || n == 0 {
			return
		}
		a := o.exact()
		if math.IsNaN(a.Min) {
			return // every weight is zero: nothing to bound
		}
		if got != a.Min || got2 != a.Max {
			c.fail("Bounds", "Bounds", sig, "obj%d [%s]: Bounds=(%v,%v), exact (%v,%v) over values with non-zero weight", k, sig, got, got2, a.Min, a.Max)
		}
	}
	c.untouched(-1, name)
}

func (c *ctx) vecEv() {
	g := c.g
	which := g.Intn(5)
	names := []string{"vec.Sum", "vec.Linspace", "vec.Logspace", "vec.Map/Vectorize", "vec.Concat"}
	c.logf("%s", names[which])
	c.hash.Str("V" + names[which])
	c.op(names[which])
	switch which {
	case 0:
		nsum := g.Range(0, 100)
		if g.Chance(1, 120) {
			nsum = 262144 + g.Range(0, 70) // beyond 2^18: the far end of a very long input must count too
			c.probe("vec_sum_of_2^18_elements")
		}
		xs, _ := c.genXs(nsum)
		var got float64
		if !c.try("vec.Sum", "", func() { got = vec.Sum(xs) }) {
			return
		}
		a := refmodel.NewAcc()
		for _, x := range xs {
			a.Add(x)
		}
		c.cmpVec("vec.Sum", got, a.S1, a.TolSum())
	case 1, 2:
		num := g.Pick(2, 2, 6)
		if num == 2 {
			num = g.BoundarySize(2, 60)
			if g.Chance(1, 15) {
				num = g.Range(1000, 5000) // long outputs: the far end must be right too
			}
		}
		lo := g.Sym() * math.Pow(10, float64(g.Range(-2, 3)))
		hi := g.Sym() * math.Pow(10, float64(g.Range(-2, 3)))
		if which == 2 {
			lo, hi = float64(g.Range(-8, 8))/2, float64(g.Range(-8, 8))/2
		}
		if g.Chance(1, 10) {
			hi = lo // a degenerate range: every value is lo
		}
		if which == 2 && g.Chance(1, 12) {
			// exponents far outside the double range: base^x is +Inf or 0 there
			ex := []float64{1e3, -1e3, 1e19, -1e19, 400, -400, 308, -330}
			lo, hi = ex[g.Intn(len(ex))], ex[g.Intn(len(ex))]
		}
		if which != 2 && g.Chance(1, 8) {
			// ranges at the ends of the double range: in the subnormals the
			// spacing itself has almost no precision, so it must not be
			// computed once and multiplied
			k := []int{-1074, -1072, -1066, -1050, -1030, -1022, -1000, -500, 500, 900}[g.Intn(10)]
			lo, hi = math.Ldexp(lo, k), math.Ldexp(hi, k)
			if g.Chance(1, 3) {
				lo = 0
			}
			c.probe("linspace_extreme_magnitude_range")
		}
		var lin []float64
		if !c.try("vec.Linspace", "", func() { lin = vec.Linspace(lo, hi, num) }) {
			return
		}
		if len(lin) != num {
			c.fail("vec", "vec.Linspace", "len", "Linspace(%v,%v,%d) has %d values", lo, hi, num, len(lin))
			return
		}
		tol := 8*refmodel.Eps*(math.Abs(lo)+math.Abs(hi)) + 2*math.SmallestNonzeroFloat64
		for i, v := range lin {
			want := lo
			if num > 1 {
				w := new(big.Float).SetPrec(refmodel.Prec).Sub(refmodel.BF(hi), refmodel.BF(lo))
				w.Mul(w, refmodel.BI(i))
				w.Quo(w, refmodel.BI(num-1))
				w.Add(w, refmodel.BF(lo))
				want = refmodel.F(w)
			}
			if math.Abs(v-want) > tol || (i == 0 && v != lo) {
				c.fail("vec", "vec.Linspace", "spacing", "Linspace(%v,%v,%d)[%d]=%v, evenly spaced value is %v", lo, hi, num, i, v, want)
				return
			}
		}
		if which == 2 {
			base := []float64{2, 10, math.E, 1.5, 0.5, 0.1, 1}[g.Intn(7)] // bases below 1 decrease; base 1 is constant
			var lg []float64
			if !c.try("vec.Logspace", "", func() { lg = vec.Logspace(lo, hi, num, base) }) {
				return
			}
			if len(lg) != num {
				c.fail("vec", "vec.Logspace", "len", "Logspace has %d values, want %d", len(lg), num)
				return
			}
			lnb := refmodel.Ln(refmodel.BF(base))
			for i, v := range lg {
				e := new(big.Float).SetPrec(refmodel.Prec).Mul(refmodel.BF(lin[i]), lnb)
				if ef := refmodel.F(e); ef > 709.8 || ef < -745.2 || math.IsNaN(lin[i]) || math.IsInf(lin[i], 0) {
					// outside the double range (or an exponent that is itself not finite,
					// e.g. the middle of Linspace(-1e19, 1e19, ...) is fine but inf-inf is not)
					if ef > 709.8 && !math.IsInf(v, 1) && !math.IsNaN(lin[i]) {
						c.fail("vec", "vec.Logspace", "overflow", "Logspace(%v,%v,%d,%v)[%d]=%v, base^%v overflows to +Inf", lo, hi, num, base, i, v, lin[i])
						return
					}
					if ef < -745.2 && v != 0 && !math.IsNaN(lin[i]) {
						c.fail("vec", "vec.Logspace", "underflow", "Logspace(%v,%v,%d,%v)[%d]=%v, base^%v underflows to 0", lo, hi, num, base, i, v, lin[i])
						return
					}
					continue
				}
				want := refmodel.F(refmodel.Exp(e))
				if math.Abs(v-want) > 8*refmodel.Eps*(1+math.Abs(refmodel.F(e)))*want+2*math.SmallestNonzeroFloat64 { // (a subnormal result has no relative precision to speak of)
					c.fail("vec", "vec.Logspace", "value", "Logspace(%v,%v,%d,%v)[%d]=%v, base^Linspace is %v", lo, hi, num, base, i, v, want)
					return
				}
			}
		}
	case 3:
		nmap := g.Range(0, 40)
		if g.Chance(1, 12) {
			nmap = g.Range(1020, 1100) // around a plausible "go parallel" threshold
		}
		xs, _ := c.genXs(nmap)
		a, b := float64(g.Range(-3, 3)), float64(g.Range(-3, 3))
		f := func(x float64) float64 { return a*x + b }
		if g.Chance(1, 3) {
			// runs of equal values, including +0 next to -0 (equal under ==, different
			// values), with a sign-sensitive pure f: a result may not be reused just
			// because the argument compares equal to its neighbour
			negz := math.Copysign(0, -1)
			pat := []float64{0, negz, 0, 0, negz, negz, 2.5, 2.5}
			at := 0
			if len(xs) > 0 {
				at = g.Intn(len(xs))
			}
			xs = append(append(append([]float64(nil), xs[:at]...), pat[g.Intn(4):]...), xs[at:]...)
			f = func(x float64) float64 { return math.Copysign(3, x)*(1+x) + b }
			c.probe("vec_map_signed_zero_run")
		}
		shadow := append([]float64(nil), xs...)
		var m1, m2 []float64
		if !c.try("vec.Map", "", func() { m1 = vec.Map(f, xs); m2 = vec.Vectorize(f)(xs) }) {
			return
		}
		if len(m1) != len(xs) || len(m2) != len(xs) {
			c.fail("vec", "vec.Map", "len", "Map/Vectorize returned %d/%d values for %d inputs", len(m1), len(m2), len(xs))
			return
		}
		for i, x := range shadow {
			if math.Float64bits(m1[i]) != math.Float64bits(f(x)) || math.Float64bits(m2[i]) != math.Float64bits(f(x)) {
				c.fail("vec", "vec.Map", "elementwise", "Map/Vectorize element %d is %v/%v, f(x)=%v", i, m1[i], m2[i], f(x))
				return
			}
		}
		if !bitsEq(xs, shadow) {
			c.fail("vec", "vec.Map", "input-modified", "Map modified its input")
		}
	case 4:
		k := g.Range(0, 4)
		var parts, shadows [][]float64
		var want []float64
		for i := 0; i < k; i++ {
			np := g.Range(0, 8)
			if g.Chance(1, 20) {
				np = g.Range(1000, 3000)
			}
			xs, _ := c.genXs(np)
			if g.Chance(1, 4) {
				xs = nil
			}
			parts = append(parts, xs)
			shadows = append(shadows, append([]float64(nil), xs...))
			want = append(want, xs...)
		}
		var out []float64
		if !c.try("vec.Concat", "", func() { out = vec.Concat(parts...) }) {
			return
		}
		if !bitsEq(out, want) {
			c.fail("vec", "vec.Concat", "contents", "Concat of %d parts has %d values, want %d (or contents differ)", k, len(out), len(want))
			return
		}
		for i := range out {
			out[i] = -12345 // the caller writes to the result: the inputs must not see it
		}
		for i := range parts {
			if !bitsEq(parts[i], shadows[i]) {
				c.fail("vec", "vec.Concat", "fresh", "Concat's result shares storage with input %d", i)
				return
			}
		}
	}
}

func (c *ctx) cmpVec(stat string, got float64, want *big.Float, tol float64) {
	err := refmodel.AbsErr(got, want)
	if c.opt.Counting {
		c.p.St.Ratio(err/tol, stat)
	}
	if !(err <= tol) {
		c.fail("vec", stat, "", "%s=%v, exact %v: |error| %.3g exceeds the bound %.3g", stat, got, refmodel.F(want), err, tol)
	}
}

func (p *Prop) Run(t *simhook.Tape, opt simkit.RunOpt) *simkit.RunResult {
	g := simkit.Work(t)
	c := &ctx{p: p, g: g, opt: opt, hash: simkit.NewHasher()}
	var nev int
	switch g.Pick(3, 4, 2) {
	case 0:
		nev = g.Range(1, 6)
	case 1:
		nev = g.Range(1, 25)
	default:
		nev = g.Range(1, 60)
	}
	body := func() {
		c.create()
		for e := 0; e < nev && c.viol == nil && !simhook.OverBudget(); e++ {
			k := g.Intn(len(c.pool))
			switch g.Pick(2, 3, 3, 3, 1, 2, 1, 12, 2, 2) {
			case 9:
				c.grow(k)
			case 0:
				c.create()
			case 1:
				c.sortEv(k)
			case 2:
				c.copyEv(k)
			case 3:
				c.mutate(k)
			case 4:
				c.setSorted(k)
			case 5:
				c.permute(k)
			case 6:
				c.expand(k)
			case 7:
				c.query(k)
			case 8:
				c.vecEv()
			}
		}
	}
	res, abort := simkit.RunSolo(t, 8000000, 50000000, true, body) // (the operation budget only has to end a hang: a 2^18-element Sum in a compensated variant costs well over a million yields)
	rr := &simkit.RunResult{Hash: uint64(c.hash), Nontrivial: c.nontriv, Steps: res.Steps, History: c.hist, Policy: "seq"}
	if abort != nil && !simkit.AbortIsVerdict(abort) {
		rr.BudgetHit = true
	}
	if simkit.AbortIsVerdict(abort) && c.viol == nil {
		c.viol = &simkit.Violation{Property: "C09", Oracle: "C09/no-progress", Op: "run", Seq: res.Steps, Message: abort.Reason + abort.Where()}
		rr.BudgetHit = true
	}
	rr.Violation = c.viol
	return rr
}
