package c20

import (
	"fmt"
	"os"
	"strings"
)

// raceLog polls the race detector's log file (GORACE=log_path=X writes
// X.<pid>) so that a report can be attributed to the run that produced it.
type raceLog struct {
	path string
	off  int64
}

type raceReport struct {
	text string
	sig  string // innermost library frames of the two conflicting accesses
	op   string
}

func newRaceLog() *raceLog {
	base := os.Getenv("VERIF_RACE_LOG")
	if base == "" {
		return &raceLog{}
	}
	return &raceLog{path: fmt.Sprintf("%s.%d", base, os.Getpid())}
}

// poll returns the first new report since the last poll, or nil.
func (l *raceLog) poll() *raceReport {
	if l.path == "" {
		return nil
	}
	st, err := os.Stat(l.path)
	if err != nil || st.Size() <= l.off {
		return nil
	}
	b, err := os.ReadFile(l.path)
	if err != nil {
		return nil
	}
	neu := string(b[l.off:])
	l.off = int64(len(b))
	i := strings.Index(neu, "WARNING: DATA RACE")
	if i < 0 {
		return nil
	}
	rep := neu[i:]
	if j := strings.Index(rep[1:], "=================="); j >= 0 {
		rep = rep[:j+1]
	}
	if len(rep) > 5000 {
		rep = rep[:5000] + "\n...(truncated)"
	}
	// signature: for each access block, the first frame inside the library or its dependency
	var frames []string
	blocks := strings.Split(rep, "\n\n")
	for _, blk := range blocks {
		lines := strings.Split(blk, "\n")
		if len(lines) == 0 {
			continue
		}
		head := strings.TrimSpace(lines[0])
		if !(strings.HasPrefix(head, "Write at") || strings.HasPrefix(head, "Read at") || strings.HasPrefix(head, "Previous write at") || strings.HasPrefix(head, "Previous read at") ||
			strings.HasPrefix(head, "WARNING: DATA RACE")) {
			continue
		}
		found := ""
		for _, ln := range lines {
			f := strings.TrimSpace(ln)
			if strings.Contains(f, "go-moremath/") || strings.HasPrefix(f, "gonum.org/") {
				if k := strings.Index(f, "go-moremath/"); k >= 0 {
					f = f[k+len("go-moremath/"):]
				}
				if strings.HasSuffix(f, "()") {
					f = f[:len(f)-2]
				}
				found = f
				break
			}
		}
		if found == "" && (strings.Contains(head, " at ")) {
			found = "(harness or runtime frame)"
		}
		if found != "" {
			frames = append(frames, found)
		}
	}
	sig := strings.Join(frames, " | ")
	op := "concurrent calls"
	if len(frames) > 0 {
		op = frames[0]
	}
	return &raceReport{text: rep, sig: sig, op: op}
}
