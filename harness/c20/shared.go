package c20

import "verif.local/harness/simkit"

// State shared between simulated tasks. In the race build the tasks are
// serialised by a baton the race detector cannot see, so from the detector's
// point of view nothing orders them: every access to harness state that more
// than one task touches goes through the //go:norace functions below, so that
// a report can only come from the library, its dependency, or the shared
// inputs (DESIGN.md §3.5).
type shared struct {
	viol        *simkit.Violation
	inflight    [64]string // name of the catalogue entry each task is inside, "" when between calls
	overlapSame int        // probe: a task entered an entry another task is inside of
	overlapAny  int
	stop        bool
}

//go:norace
func (s *shared) getViol() *simkit.Violation { return s.viol }

//go:norace
func (s *shared) setViol(v *simkit.Violation) {
	if s.viol == nil {
		s.viol = v
	}
	s.stop = true
}

//go:norace
func (s *shared) stopped() bool { return s.stop }

//go:norace
func (s *shared) enter(task int, name string, ntasks int) {
	s.inflight[task] = name
	for t := 0; t < ntasks; t++ {
		if t != task && s.inflight[t] != "" {
			s.overlapAny++
			if s.inflight[t] == name {
				s.overlapSame++
			}
			break
		}
	}
}

//go:norace
func (s *shared) leave(task int) { s.inflight[task] = "" }

//go:norace
func (s *shared) inside(task int) string {
	if task < 0 || task >= len(s.inflight) {
		return ""
	}
	return s.inflight[task]
}
