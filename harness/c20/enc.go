package c20

import (
	"encoding/binary"
	"fmt"
	"math"
)

// R canonicalises a result to bytes: floats by their bits, errors by their
// text, a panic by its message. C20 does not ask whether an answer is right,
// only whether it is the same answer.
type R struct {
	b    []byte
	viol string // an in-call oracle failed (equal-state checks); empty otherwise
}

// Fail records an in-call oracle failure.
func (r *R) Fail(format string, a ...any) {
	if r.viol == "" {
		r.viol = fmt.Sprintf(format, a...)
	}
}

func (r *R) F(x float64) *R {
	r.b = binary.LittleEndian.AppendUint64(r.b, math.Float64bits(x))
	return r
}
func (r *R) I(x int) *R {
	r.b = binary.LittleEndian.AppendUint64(r.b, uint64(int64(x)))
	return r
}
func (r *R) B(x bool) *R {
	if x {
		r.b = append(r.b, 1)
	} else {
		r.b = append(r.b, 0)
	}
	return r
}
func (r *R) S(s string) *R {
	r.I(len(s))
	r.b = append(r.b, s...)
	return r
}
func (r *R) Fs(xs []float64) *R {
	r.I(len(xs))
	for _, x := range xs {
		r.F(x)
	}
	return r
}
// OwnFs / OwnIs record a slice the callee returned as a fresh result and then
// overwrite it: the caller owns what it was handed, so a library that keeps
// (or hands out twice) the storage behind a result shows up in the next call.
func (r *R) OwnFs(xs []float64) *R {
	r.Fs(xs)
	for i := range xs {
		xs[i] = -7.77e77
	}
	return r
}
func (r *R) OwnIs(xs []int) *R {
	r.Is(xs)
	for i := range xs {
		xs[i] = -7
	}
	return r
}
func (r *R) Is(xs []int) *R {
	r.I(len(xs))
	for _, x := range xs {
		r.I(x)
	}
	return r
}
func (r *R) Us(xs []uint) *R {
	r.I(len(xs))
	for _, x := range xs {
		r.I(int(x))
	}
	return r
}
func (r *R) Err(err error) *R {
	if err == nil {
		return r.S("<nil>")
	}
	return r.S("error:" + err.Error())
}
func (r *R) Any(v interface{}) *R { return r.S(fmt.Sprintf("%T:%v", v, v)) }

func (r *R) hash() uint64 {
	h := uint64(0xcbf29ce484222325)
	for _, c := range r.b {
		h = (h ^ uint64(c)) * 0x100000001b3
	}
	return h
}
