package c20

import (
	"fmt"
	"math"
	"math/rand"

	"github.com/aclements/go-moremath/fit"
	"github.com/aclements/go-moremath/graph"
	"github.com/aclements/go-moremath/graph/graphalg"
	"github.com/aclements/go-moremath/graph/graphout"
	"github.com/aclements/go-moremath/mathx"
	"github.com/aclements/go-moremath/scale"
	"github.com/aclements/go-moremath/stats"
	"github.com/aclements/go-moremath/vec"
	"verif.local/harness/simenv"
	"verif.local/harness/simkit"
)

// call is one drawn operation on the shared pool. run must be a pure function
// of the (frozen) pool and the scalars captured at generation time.
type call struct {
	name string
	desc string
	run  func(r *R)
}

type entry struct {
	name string
	api  []string // API listing names covered (audited against the instrumenter's go/types listing)
	gen  func(g simkit.G, p *pool) call
}

// simDist is a user-defined distribution behind the stats.DistCommon seam:
// piecewise-linear CDF on [lo,hi].
type simDist struct{ lo, hi, knee float64 }

func (d simDist) CDF(x float64) float64 {
	switch {
	case x <= d.lo:
		return 0
	case x >= d.hi:
		return 1
	case x < d.knee:
		return 0.25 * (x - d.lo) / (d.knee - d.lo)
	}
	return 0.25 + 0.75*(x-d.knee)/(d.hi-d.knee)
}
func (d simDist) Bounds() (float64, float64) { return d.lo, d.hi }

// crashDist is a simDist whose CDF panics while armed (armed only by a
// history-mode intervening call, never while tasks run concurrently; no
// counters: nothing here is written during the concurrent phase).
type crashDist struct {
	simDist
	armed bool
}

func (d *crashDist) CDF(x float64) float64 {
	if d.armed && x > d.knee {
		panic(&simenv.Crash{Where: "DistCommon.CDF"})
	}
	return d.simDist.CDF(x)
}

var alts = []stats.LocationHypothesis{stats.LocationLess, stats.LocationDiffers, stats.LocationGreater}

func encT(r *R, t *stats.TTestResult, err error) {
	r.Err(err)
	if t != nil {
		r.I(t.N1).I(t.N2).F(t.T).F(t.DoF).I(int(t.AltHypothesis)).F(t.P)
	}
}

func probeXs(g simkit.G, n int) []float64 {
	xs := make([]float64, n)
	for i := range xs {
		xs[i] = 40*g.Unit() - 12
	}
	return xs
}

func catalogue() []entry {
	E := func(name string, api []string, gen func(g simkit.G, p *pool) call) entry {
		return entry{name, api, gen}
	}
	return []entry{
		E("stats.slice-stats", []string{"stats.Bounds", "stats.Mean", "stats.GeoMean", "stats.Variance", "stats.StdDev", "stats.MeanCI"}, func(g simkit.G, p *pool) call {
			i := g.Intn(len(p.fl) + len(p.pos))
			xs := append(append([][]float64{}, p.fl...), p.pos...)[i]
			conf := []float64{0.95, 0.5, 0, 1}[g.Intn(4)]
			return call{desc: fmt.Sprintf("slice %d conf=%v", i, conf), run: func(r *R) {
				a, b := stats.Bounds(xs)
				r.F(a).F(b).F(stats.Mean(xs)).F(stats.GeoMean(xs)).F(stats.Variance(xs)).F(stats.StdDev(xs))
				m, lo, hi := stats.MeanCI(xs, conf)
				r.F(m).F(lo).F(hi)
			}}
		}),
		E("stats.Sample.descriptive", []string{"stats.Sample.Bounds", "stats.Sample.Sum", "stats.Sample.Weight", "stats.Sample.Mean", "stats.Sample.GeoMean", "stats.Sample.Variance", "stats.Sample.StdDev", "stats.Sample.MeanCI"}, func(g simkit.G, p *pool) call {
			i := g.Intn(len(p.samples))
			s := p.samples[i]
			return call{desc: fmt.Sprintf("sample %d", i), run: func(r *R) {
				a, b := s.Bounds()
				r.F(a).F(b).F(s.Sum()).F(s.Weight()).F(s.Mean()).F(s.GeoMean())
				if s.Weights == nil {
					r.F(s.Variance()).F(s.StdDev())
					m, lo, hi := s.MeanCI(0.9)
					r.F(m).F(lo).F(hi)
				}
			}}
		}),
		E("stats.Sample.weighted-unimplemented", []string{}, func(g simkit.G, p *pool) call {
			s := p.samples[6]
			return call{desc: "weighted Variance (documented panic is a deterministic result)", run: func(r *R) { r.F(s.Variance()) }}
		}),
		E("stats.Sample.Quantile", []string{"stats.Sample.Quantile", "stats.Sample.IQR"}, func(g simkit.G, p *pool) call {
			i := g.Intn(len(p.samples))
			s := p.samples[i]
			q := []float64{0.5, 0.25, 0.9, 0, 1, g.Unit()}[g.Intn(6)]
			return call{desc: fmt.Sprintf("sample %d q=%v", i, q), run: func(r *R) { r.F(s.Quantile(q)).F(s.IQR()) }}
		}),
		E("stats.Sample.Copy", []string{"stats.Sample.Copy"}, func(g simkit.G, p *pool) call {
			i := g.Intn(len(p.samples))
			s := p.samples[i]
			return call{desc: fmt.Sprintf("sample %d, then the caller sorts and overwrites the copy", i), run: func(r *R) {
				c := s.Copy()
				r.Fs(c.Xs).Fs(c.Weights).B(c.Sorted)
				// the caller owns the copy: sort it and scribble over it
				c.Sort()
				for k := range c.Xs {
					c.Xs[k] = 12345
				}
				for k := range c.Weights {
					c.Weights[k] = 54321
				}
			}}
		}),
		E("stats.MannWhitneyUTest", []string{"stats.MannWhitneyUTest"}, func(g simkit.G, p *pool) call {
			i, j := g.Intn(len(p.fl)), g.Intn(len(p.fl))
			alt := alts[g.Intn(3)]
			x1, x2 := p.fl[i], p.fl[j]
			return call{desc: fmt.Sprintf("fl[%d] vs fl[%d] alt=%d", i, j, alt), run: func(r *R) {
				res, err := stats.MannWhitneyUTest(x1, x2, alt)
				r.Err(err)
				if res != nil {
					r.I(res.N1).I(res.N2).F(res.U).I(int(res.AltHypothesis)).F(res.P)
				}
			}}
		}),
		E("stats.t-tests", []string{"stats.TwoSampleTTest", "stats.TwoSampleWelchTTest", "stats.PairedTTest", "stats.OneSampleTTest"}, func(g simkit.G, p *pool) call {
			i, j := g.Intn(6), g.Intn(6)
			alt := alts[g.Intn(3)]
			mu := float64(g.Range(-3, 3))
			pair := g.Intn(2) * 2
			return call{desc: fmt.Sprintf("samples %d,%d paired fl[%d],fl[%d] mu=%v", i, j, pair, pair+1, mu), run: func(r *R) {
				t, err := stats.TwoSampleTTest(p.samples[i], p.samples[j], alt)
				encT(r, t, err)
				t, err = stats.TwoSampleWelchTTest(p.samples[i], p.samples[j], alt)
				encT(r, t, err)
				t, err = stats.PairedTTest(p.fl[pair], p.fl[pair+1], mu, alt)
				encT(r, t, err)
				t, err = stats.OneSampleTTest(p.samples[i], mu, alt)
				encT(r, t, err)
			}}
		}),
		E("stats.QuantileCI.SampleCI", []string{"stats.QuantileCIResult.SampleCI"}, func(g simkit.G, p *pool) call {
			i := g.Intn(6)
			s := p.samples[i]
			q := []float64{0.5, 0.25, 0.9}[g.Intn(3)]
			return call{desc: fmt.Sprintf("sample %d q=%v", i, q), run: func(r *R) {
				ci := stats.QuantileCI(len(s.Xs), q, 0.9)
				a, lo, hi := ci.SampleCI(s)
				r.F(a).F(lo).F(hi)
			}}
		}),
		E("stats.KDE", []string{"stats.KDE.PDF", "stats.KDE.CDF", "stats.KDE.Bounds"}, func(g simkit.G, p *pool) call {
			i := g.Intn(len(p.kde))
			k := p.kde[i]
			x := 30*g.Unit() - 10
			bounds := g.Chance(1, 3)
			return call{desc: fmt.Sprintf("kde %d x=%v bounds=%v", i, x, bounds), run: func(r *R) {
				r.F(k.PDF(x)).F(k.CDF(x))
				if bounds {
					lo, hi := k.Bounds()
					r.F(lo).F(hi)
				}
			}}
		}),
		E("stats.Bandwidth", []string{"stats.BandwidthScott", "stats.BandwidthSilverman"}, func(g simkit.G, p *pool) call {
			i := g.Intn(6)
			s := p.samples[i]
			return call{desc: fmt.Sprintf("sample %d", i), run: func(r *R) { r.F(stats.BandwidthScott(s)).F(stats.BandwidthSilverman(s)) }}
		}),
		E("stats.UDist", []string{"stats.UDist.PMF", "stats.UDist.CDF", "stats.UDist.Bounds", "stats.UDist.Step"}, func(g simkit.G, p *pool) call {
			i := g.Intn(len(p.ints))
			t := p.ints[i]
			tot := 0
			for _, k := range t {
				tot += k
			}
			n1 := 1 + g.Intn(maxInt(tot-1, 1))
			if tot < 2 {
				n1 = tot
			}
			d := stats.UDist{N1: n1, N2: tot - n1, T: t}
			if g.Chance(1, 3) {
				d.T = nil
			}
			u := float64(g.Range(0, 2*n1*(tot-n1))) / 2
			if g.Chance(1, 8) {
				// a lopsided no-ties distribution with a sample size around or beyond 256
				d = stats.UDist{N1: g.Range(1, 3), N2: []int{44, 255, 256, 257, 300, 556}[g.Intn(6)]}
				u = float64(g.Range(0, 40))
			}
			shift := []int{256, 512, 65536}[g.Intn(3)]
			return call{desc: fmt.Sprintf("UDist{N1:%d,N2:%d,T:%v} U=%v", d.N1, d.N2, d.T, u), run: func(r *R) {
				if d.T == nil && d.N2 <= 300 && shift <= 512 {
					// the same question asked again after a sibling whose sizes differ by a
					// multiple of 256 (a table keyed on truncated sizes would be served
					// the sibling's entry) must get the same answer
					w1, w2 := d.CDF(u), d.PMF(u)
					sib := stats.UDist{N1: d.N1, N2: d.N2 + shift}
					sib.CDF(u + 7)
					sib.PMF(u + 7)
					if g1, g2 := d.CDF(u), d.PMF(u); math.Float64bits(g1) != math.Float64bits(w1) || math.Float64bits(g2) != math.Float64bits(w2) {
						r.Fail("UDist{N1:%d,N2:%d}.CDF/PMF(%v) answered %v/%v, and %v/%v after the same questions were put to UDist{N1:%d,N2:%d}", d.N1, d.N2, u, w1, w2, g1, g2, sib.N1, sib.N2)
					}
				}
				r.F(d.PMF(u)).F(d.CDF(u))
				lo, hi := d.Bounds()
				r.F(lo).F(hi).F(d.Step())
			}}
		}),
		E("stats.InvCDF", []string{"stats.InvCDF"}, func(g simkit.G, p *pool) call {
			y := []float64{0.5, 0.025, 0.999, 0, 1, g.Unit()}[g.Intn(6)]
			which := g.Intn(4)
			sd := simDist{lo: -2, hi: 7, knee: float64(g.Range(0, 5))}
			return call{desc: fmt.Sprintf("dist %d y=%v", which, y), run: func(r *R) {
				switch which {
				case 0:
					r.F(stats.InvCDF(stats.NormalDist{Mu: 1, Sigma: 2})(y))
				case 1:
					r.F(p.invT(y)) // shared closure over a generic (bisection) inverse
				case 2:
					r.F(p.invS(y)) // shared closure over a user-defined distribution (crashable in history mode)
				default:
					r.F(stats.InvCDF(sd)(y))
				}
			}}
		}),
		E("stats.Rand", []string{"stats.Rand", "stats.NormalDist.Rand"}, func(g simkit.G, p *pool) call {
			// scripted source: rare outputs a real PRNG practically never produces
			script := make([]uint64, g.Range(0, 3))
			for i := range script {
				switch g.Pick(2, 1, 1) {
				case 0:
					script[i] = 0 // Float64()==0: the generic generator must skip it
				case 1:
					script[i] = g.T.Draw(g.St, 1<<53) << 11
				default:
					script[i] = 1 << 10 // top 53 bits zero
				}
			}
			seed := int64(g.Intn(1000))
			sd := simDist{lo: 0, hi: 4, knee: 1}
			return call{desc: fmt.Sprintf("scripted source %v seed=%d", script, seed), run: func(r *R) {
				src := &simenv.SimSource{Script: append([]uint64(nil), script...), State: uint64(seed)}
				rr := rand.New(src)
				r.F(stats.Rand(sd)(rr)).F(stats.Rand(sd)(rr)).F(stats.Rand(stats.TDist{V: 3})(rr))
				r.F(stats.NormalDist{Mu: 2, Sigma: 3}.Rand(rr)).F(stats.Rand(stats.NormalDist{Mu: 0, Sigma: 1})(rr))
				r.I(src.Calls)
			}}
		}),
		E("stats.Histogram", []string{"stats.HistogramQuantile", "stats.HistogramIQR", "stats.LinearHist.Counts", "stats.LinearHist.BinToValue", "stats.LogHist.Counts", "stats.LogHist.BinToValue", "stats.LogHist.At", "stats.LogHist.Bounds"}, func(g simkit.G, p *pool) call {
			i := g.Intn(len(p.hists))
			h := p.hists[i]
			q := []float64{0.5, 0.25, 1, g.Unit()}[g.Intn(4)]
			return call{desc: fmt.Sprintf("hist %d q=%v", i, q), run: func(r *R) {
				r.F(stats.HistogramQuantile(h, q)).F(stats.HistogramIQR(h))
				u, c, o := h.Counts()
				r.I(int(u)).Us(c).I(int(o)).F(h.BinToValue(1.5))
				if lh, ok := h.(*stats.LogHist); ok {
					lo, hi := lh.Bounds()
					r.F(lh.At(3)).F(lo).F(hi)
				}
			}}
		}),
		E("fit.LinearLeastSquares", []string{"fit.LinearLeastSquares", "fit.PolynomialRegression", "fit.PolynomialRegressionResult.String"}, func(g simkit.G, p *pool) call {
			pair := g.Intn(2) * 2
			useW := pair == 0 || pair == 2
			deg := g.Range(0, 3)
			xs := probeXs(g, 3)
			extreme := g.Chance(1, 3)
			return call{desc: fmt.Sprintf("fl[%d],fl[%d] weights=%v extreme=%v degree=%d", pair, pair+1, useW, extreme, deg), run: func(r *R) {
				var w []float64
				if useW {
					w = p.wts[pair]
					if pair == 2 && extreme {
						w = p.xwts
					}
				}
				if len(p.fl[pair]) == 0 {
					r.S("empty")
					return
				}
				r.OwnFs(fit.LinearLeastSquares(p.fl[pair], p.fl[pair+1], w,
					func(xs, out []float64) {
						for i := range out {
							out[i] = 1
						}
					},
					func(xs, out []float64) { copy(out, xs) }))
				pr := fit.PolynomialRegression(p.fl[pair], p.fl[pair+1], w, deg)
				r.Fs(pr.Coefficients).S(pr.String())
				for _, x := range xs {
					r.F(pr.F(x))
				}
				for k := range pr.Coefficients {
					pr.Coefficients[k] = -7.77e77 // the result object is the caller's
				}
			}}
		}),
		E("fit.LOESS", []string{"fit.LOESS"}, func(g simkit.G, p *pool) call {
			fresh := g.Chance(1, 2)
			deg := 1 + g.Intn(2)
			span := []float64{0.5, 0.75, 1}[g.Intn(3)]
			xs := probeXs(g, 3)
			sorted := g.Chance(1, 3)
			return call{desc: fmt.Sprintf("fresh=%v sorted-input=%v degree=%d span=%v", fresh, sorted, deg, span), run: func(r *R) {
				f := p.loess // shared closure built before the run
				if fresh {
					f = fit.LOESS(p.fl[2], p.fl[3], deg, span)
				}
				if sorted {
					f = fit.LOESS(p.sx, p.sy, deg, span) // already ascending: no defensive copy is made
				}
				for _, x := range xs {
					r.F(f(x))
				}
				for _, x := range xs {
					r.F(p.poly.F(x))
				}
			}}
		}),
		E("large-input", []string{}, func(g simkit.G, p *pool) call {
			if p.huge == nil {
				xs := p.fl[2]
				return call{desc: "no huge slice in this pool: vec.Sum(fl[2])", run: func(r *R) { r.F(vec.Sum(xs)) }}
			}
			xs := p.huge
			return call{desc: fmt.Sprintf("linear-time statistics of the %d-element slice", len(xs)), run: func(r *R) {
				s := stats.Sample{Xs: xs}
				lo, hi := stats.Bounds(xs)
				r.F(vec.Sum(xs)).F(stats.Mean(xs)).F(stats.Variance(xs)).F(lo).F(hi).F(s.Sum()).F(s.Weight()).F(s.Mean())
				m := vec.Map(func(x float64) float64 { return x * 0.5 }, xs)
				r.F(vec.Sum(m)).F(s.Quantile(0.37))
			}}
		}),
		E("scalar-distributions", []string{}, func(g simkit.G, p *pool) call {
			// value-type distributions and special functions take no aggregate, but a
			// package-level table or memo behind them is shared by every caller
			n := g.Range(21, 250)
			if g.Chance(1, 6) {
				n = []int{255, 256, 257, 1000, 4095, 4096, 4097, 10000}[g.Intn(8)]
			}
			k := g.Range(0, n)
			pr := 0.05 + 0.9*g.Unit()
			x := 6*g.Unit() - 3
			sh := []int{256, 65536, 1 << 20}[g.Intn(3)]
			shapes := []float64{0.5, 1, 1.5, 2, 2.5, 3.5, 5, 7.25}
			sa, sb := shapes[g.Intn(len(shapes))], shapes[g.Intn(len(shapes))]
			xb := []float64{0.05, 0.3, 0.5, 0.95}[g.Intn(4)]
			return call{desc: fmt.Sprintf("n=%d k=%d p=%v x=%v beta(%v,%v) at %v", n, k, pr, x, sa, sb, xb), run: func(r *R) {
				// asked again after the MIRRORED question (symmetric functions whose two
				// evaluation orders round differently: a memo that treats (a,b) and
				// (b,a), or k and n-k, as one key answers by whoever came first)
				m1, m2, m3, m4 := mathx.BetaInc(xb, sa, sb), mathx.Beta(sa, sb), mathx.Lchoose(n, k), mathx.Choose(n, k)
				// (first other arguments, so that a small memo has forgotten the original
				// question and computes the mirrored one afresh: one other key evicts a
				// one-entry memo, seventy evict a table of 64)
				evict := 1
				if (n+k)%3 == 0 {
					evict = 70
				}
				for j := 1; j <= evict; j++ {
					mathx.BetaInc(xb, sa+0.25*float64(j)+0.125, sb+1.75)
					mathx.Beta(sa+0.25*float64(j)+0.125, sb+1.75)
					mathx.Lchoose(n+j, k)
					mathx.Choose(n+j, k)
				}
				mathx.BetaInc(xb, sb, sa)
				mathx.BetaInc(1-xb, sb, sa)
				mathx.Beta(sb, sa)
				mathx.Lchoose(n, n-k)
				mathx.Choose(n, n-k)
				if q1, q2, q3, q4 := mathx.BetaInc(xb, sa, sb), mathx.Beta(sa, sb), mathx.Lchoose(n, k), mathx.Choose(n, k); math.Float64bits(q1) != math.Float64bits(m1) || math.Float64bits(q2) != math.Float64bits(m2) || math.Float64bits(q3) != math.Float64bits(m3) || math.Float64bits(q4) != math.Float64bits(m4) {
					r.Fail("BetaInc(%v,%v,%v)/Beta/Lchoose(%d,%d)/Choose answered %v/%v/%v/%v, and %v/%v/%v/%v after the mirrored arguments were evaluated", xb, sa, sb, n, k, m1, m2, m3, m4, q1, q2, q3, q4)
				}
				r.F(m1).F(m2)
				// asked again after the same functions were evaluated at arguments that
				// differ by a power of two (keys truncated to 8/16/20 bits collide)
				w1, w2 := mathx.Choose(n, k), stats.BinomialDist{N: n, P: pr}.PMF(float64(k))
				mathx.Choose(n+sh, k)
				mathx.Lchoose(n+sh, k+sh)
				stats.BinomialDist{N: n + sh, P: pr}.PMF(float64(k))
				stats.QuantileCI(n+sh, 0.5, 0.9)
				if g1, g2 := mathx.Choose(n, k), (stats.BinomialDist{N: n, P: pr}).PMF(float64(k)); math.Float64bits(g1) != math.Float64bits(w1) || math.Float64bits(g2) != math.Float64bits(w2) {
					r.Fail("Choose(%d,%d)/Binomial PMF answered %v/%v, and %v/%v after the same functions were evaluated at n+%d", n, k, w1, w2, g1, g2, sh)
				}
				r.F(mathx.Choose(n, k)).F(mathx.Lchoose(n, k)).F(mathx.Choose(n%21, k%5))
				b := stats.BinomialDist{N: n, P: pr}
				r.F(b.PMF(float64(k))).F(b.CDF(float64(k)))
				h := stats.HypergeometicDist{N: n, K: n / 2, Draws: n / 3}
				r.F(h.PMF(float64(k % (n/3 + 1)))).F(h.CDF(float64(k % (n/3 + 1))))
				ci := stats.QuantileCI(n, 0.5, 0.9)
				r.I(ci.LoOrder).I(ci.HiOrder).F(ci.Confidence)
				nd := stats.NormalDist{Mu: 1, Sigma: 2}
				r.F(nd.PDF(x)).F(nd.CDF(x)).F(nd.InvCDF(pr))
				td := stats.TDist{V: float64(n % 30)}
				r.F(td.PDF(x)).F(td.CDF(x))
				r.F(mathx.Beta(pr*3, 2)).F(mathx.BetaInc(pr, 2, 3)).F(mathx.GammaInc(2.5, pr*4)).F(mathx.GammaIncComp(2.5, pr*4))
			}}
		}),
		E("constructors", []string{}, func(g simkit.G, p *pool) call {
			// constructors and the first operations on a task-private object: nothing
			// is shared here except whatever the library keeps at package level
			b := g.Range(2, 10)
			m := float64(g.Range(1, 4))
			mx := float64(g.Range(5, 5000))
			nb := g.Range(1, 30)
			lo := float64(g.Range(-50, 50))
			x := 40*g.Unit() + 0.01
			return call{desc: fmt.Sprintf("NewLogHist(%d,%v,%v) NewLinearHist(%v,%v,%d) NewLog x=%v", b, m, mx, lo, lo+7, nb, x), run: func(r *R) {
				lh := stats.NewLogHist(b, m, mx)
				lh.Add(x)
				lh.Add(x * 3)
				u, cs, o := lh.Counts()
				r.I(int(u)).Us(cs).I(int(o)).F(lh.BinToValue(1)).F(lh.BinToValue(float64(len(cs))))
				h := stats.NewLinearHist(lo, lo+7, nb)
				h.Add(lo + x/8)
				u, cs, o = h.Counts()
				r.I(int(u)).Us(cs).I(int(o)).F(h.BinToValue(0.5))
				sl, err := scale.NewLog(x, x*float64(b)*10, b)
				r.Err(err).F(sl.Map(x * 2))
				var st stats.StreamStats
				st.Add(x)
				st.Add(lo)
				r.F(st.Mean()).F(st.StdDev())
				var nm graphalg.NodeMarks
				nm.Mark(nb * 40)
				r.I(nm.Next(-1))
				k := &stats.KDE{Sample: stats.Sample{Xs: []float64{lo, lo + 1, x, x + 2}}}
				r.F(k.PDF(x)).F(k.Bandwidth)
			}}
		}),
		E("equal-state", []string{}, func(g simkit.G, p *pool) call {
			// two objects whose exported state is equal must answer alike, whatever
			// private history led there (O2 for task-private objects)
			a, b := p.fl[2], p.fl[4]
			x := 20*g.Unit() - 5
			which := g.Intn(3)
			return call{desc: fmt.Sprintf("variant %d x=%v", which, x), run: func(r *R) {
				switch which {
				case 0:
					// KDE: lazily fill Bandwidth on sample a, then point the same object at
					// sample b; a fresh KDE with the same exported fields must agree
					k := &stats.KDE{Sample: stats.Sample{Xs: append([]float64(nil), a...)}}
					k.PDF(x)
					k.Sample = stats.Sample{Xs: append([]float64(nil), b...), Weights: append([]float64(nil), p.wts[4]...)}
					fresh := &stats.KDE{Sample: k.Sample, Kernel: k.Kernel, Bandwidth: k.Bandwidth, BoundaryMethod: k.BoundaryMethod, BoundaryMin: k.BoundaryMin, BoundaryMax: k.BoundaryMax}
					if k.Bandwidth != 0 && !math.IsNaN(k.Bandwidth) {
						p1, p2, c1, c2 := k.PDF(x), fresh.PDF(x), k.CDF(x), fresh.CDF(x)
						r.F(p1).F(c1)
						if math.Float64bits(p1) != math.Float64bits(p2) || math.Float64bits(c1) != math.Float64bits(c2) {
							r.Fail("a KDE whose Bandwidth was filled lazily on one sample and whose Sample field was then replaced answers PDF=%v CDF=%v; a fresh KDE with identical exported fields answers PDF=%v CDF=%v", p1, c1, p2, c2)
						}
					}
				case 1:
					// histograms built by the same Adds answer alike, queries in between or not
					h1, h2 := stats.NewLinearHist(-10, 20, 6), stats.NewLinearHist(-10, 20, 6)
					for i, v := range a {
						h1.Add(v)
						h2.Add(v)
						if i%3 == 0 {
							stats.HistogramQuantile(h1, 0.1)
							stats.HistogramIQR(h1)
						}
					}
					q1, q2 := stats.HistogramQuantile(h1, 0.5), stats.HistogramQuantile(h2, 0.5)
					r.F(q1)
					if math.Float64bits(q1) != math.Float64bits(q2) {
						r.Fail("two LinearHists built by the same Adds answer the median %v and %v (one was queried in between)", q1, q2)
					}
				default:
					// StreamStats: reading statistics between Adds must not change later answers
					var s1, s2 stats.StreamStats
					for _, v := range b {
						s1.Add(v)
						s2.Add(v)
						_ = s1.StdDev()
						_ = s1.String()
					}
					r.F(s1.StdDev()).F(s1.Mean())
					// compared through the accessors (the struct need not be comparable)
					same := s1.Count == s2.Count && math.Float64bits(s1.Total) == math.Float64bits(s2.Total) &&
						math.Float64bits(s1.Min) == math.Float64bits(s2.Min) && math.Float64bits(s1.Max) == math.Float64bits(s2.Max) &&
						math.Float64bits(s1.Mean()) == math.Float64bits(s2.Mean()) && math.Float64bits(s1.RMS()) == math.Float64bits(s2.RMS()) &&
						math.Float64bits(s1.Variance()) == math.Float64bits(s2.Variance())
					if math.Float64bits(s1.StdDev()) != math.Float64bits(s2.StdDev()) || !same {
						r.Fail("two StreamStats fed the same values differ (%v vs %v); one had its statistics read between Adds", s1.String(), s2.String())
					}
				}
			}}
		}),
		E("buffer-reuse", []string{}, func(g simkit.G, p *pool) call {
			// the caller keeps ONE buffer, fills it, calls, refills it with other
			// contents and calls again: the second answer must be the answer for the
			// new contents (compared with the same call on a fresh slice holding them).
			// An implementation that remembers a slice by identity instead of by
			// value gets this wrong.
			which := g.Intn(6)
			a := append([]float64(nil), p.fl[2]...)
			b := append([]float64(nil), p.fl[3]...) // same length as a
			t1 := append([]int(nil), p.ints[0]...)
			t2 := make([]int, len(t1)) // another tie vector with the same sum and length: a rotation, or a reversal
			for i := range t1 {
				t2[i] = t1[len(t1)-1-i]
			}
			tot := 0
			for _, k := range t1 {
				tot += k
			}
			n1 := 1 + g.Intn(maxInt(tot-1, 1))
			u := float64(g.Range(0, n1*(tot-n1)))
			single := g.Intn(3)
			return call{desc: fmt.Sprintf("variant %d/%d", which, single), run: func(r *R) {
				same := func(name string, f func(buf []float64) *R) {
					// the expected answer is computed first, on a fresh slice, before the
					// buffer exists (a by-identity cache poisoned later would otherwise
					// serve the same stale entry to both)
					want := f(append([]float64(nil), b...))
					buf := make([]float64, len(a))
					copy(buf, a)
					f(buf)
					copy(buf, b)
					got := f(buf)
					r.I(int(got.hash() >> 40))
					if got.hash() != want.hash() {
						r.Fail("%s called on a buffer, then again on the same buffer refilled with other values, answers differently from the same call on a fresh slice holding those values", name)
					}
				}
				switch which {
				case 0:
					tb := make([]int, len(t1))
					f := func(t []int) *R {
						d := stats.UDist{N1: n1, N2: tot - n1, T: t}
						// one entry point per history (a by-identity memo is only hit when
						// the call right after the refill repeats the call right before it)
						switch single {
						case 0:
							return (&R{}).F(d.CDF(u))
						case 1:
							return (&R{}).F(d.PMF(u))
						}
						return (&R{}).F(d.PMF(u)).F(d.CDF(u))
					}
					want := f(append([]int(nil), t2...))
					copy(tb, t1)
					f(tb)
					copy(tb, t2)
					got := f(tb)
					r.I(int(got.hash() >> 40))
					if got.hash() != want.hash() {
						r.Fail("UDist with a tie vector held in a reused buffer (refilled between two calls) answers PMF/CDF for the old ties")
					}
				case 1:
					same("MannWhitneyUTest", func(buf []float64) *R {
						res, err := stats.MannWhitneyUTest(buf, p.fl[4], stats.LocationDiffers)
						o := (&R{}).Err(err)
						if res != nil {
							o.F(res.U).F(res.P)
						}
						return o
					})
				case 2:
					same("Sample statistics", func(buf []float64) *R {
						sm := stats.Sample{Xs: buf}
						switch single {
						case 0:
							return (&R{}).F(sm.Quantile(0.3))
						case 1:
							return (&R{}).F(sm.IQR())
						}
						lo, hi := sm.Bounds()
						return (&R{}).F(sm.Mean()).F(sm.Variance()).F(sm.Quantile(0.3)).F(sm.IQR()).F(lo).F(hi).F(stats.GeoMean(buf))
					})
				case 3:
					same("LOESS / PolynomialRegression", func(buf []float64) *R {
						f := fit.LOESS(buf, p.fl[2], 1, 0.75)
						pr := fit.PolynomialRegression(buf, p.fl[2], nil, 2)
						return (&R{}).F(f(0.5)).F(f(3)).Fs(pr.Coefficients)
					})
				case 4:
					same("KDE", func(buf []float64) *R {
						k := &stats.KDE{Sample: stats.Sample{Xs: buf}, Bandwidth: 0.7}
						return (&R{}).F(k.PDF(1)).F(k.CDF(1))
					})
				default:
					same("t-tests / QuantileCI.SampleCI", func(buf []float64) *R {
						o := &R{}
						t, err := stats.PairedTTest(buf, p.fl[2], 0, stats.LocationDiffers)
						encT(o, t, err)
						t, err = stats.OneSampleTTest(stats.Sample{Xs: buf}, 0.5, stats.LocationLess)
						encT(o, t, err)
						q, lo, hi := stats.QuantileCI(len(buf), 0.5, 0.9).SampleCI(stats.Sample{Xs: buf})
						return o.F(q).F(lo).F(hi)
					})
				}
			}}
		}),
		E("vec", []string{"vec.Sum", "vec.Map", "vec.Vectorize", "vec.Concat"}, func(g simkit.G, p *pool) call {
			i, j := g.Intn(len(p.fl)), g.Intn(len(p.fl))
			return call{desc: fmt.Sprintf("fl[%d], fl[%d]", i, j), run: func(r *R) {
				f := func(x float64) float64 { return 2*x + 1 }
				r.F(vec.Sum(p.fl[i])).OwnFs(vec.Map(f, p.fl[i])).OwnFs(vec.Vectorize(f)(p.fl[j]))
				c := vec.Concat(p.fl[i], p.fl[j], p.fl[i])
				r.Fs(c)
				for k := range c {
					c[k] = 999 // the caller owns the result
				}
			}}
		}),
		E("scale.Linear", []string{}, func(g simkit.G, p *pool) call {
			i := g.Intn(len(p.lin))
			s := p.lin[i]
			x := 50*g.Unit() - 10
			o := scale.TickOptions{Max: g.Range(0, 12)}
			lvl := g.Range(-3, 3)
			return call{desc: fmt.Sprintf("linear %d x=%v max=%d level=%d", i, x, o.Max, lvl), run: func(r *R) {
				r.F(s.Map(x)).F(s.Unmap(s.Map(x)))
				ma, mi := s.Ticks(o)
				r.OwnFs(ma).OwnFs(mi).I(s.CountTicks(lvl)).OwnFs(s.TicksAtLevel(lvl).([]float64))
				if s != p.lin[i] {
					// (a value receiver today; a pointer receiver would reach the caller's scale)
					r.Fail("a query on the caller's Linear scale changed it: %+v, was %+v", s, p.lin[i])
				}
			}}
		}),
		E("scale.Log", []string{"scale.TickOptions.FindLevel", "scale.QQ.Map", "scale.QQ.Unmap"}, func(g simkit.G, p *pool) call {
			i := g.Intn(len(p.logs))
			s := p.logs[i] // shared *Log
			x := 100*g.Unit() + 0.5
			if i == 1 {
				x = -x
			}
			o := scale.TickOptions{Max: g.Range(1, 10)}
			guess := g.Range(-2, 4)
			return call{desc: fmt.Sprintf("log %d x=%v max=%d guess=%d", i, x, o.Max, guess), run: func(r *R) {
				r.F(s.Map(x)).F(s.Unmap(0.3))
				ma, mi := s.Ticks(o)
				r.OwnFs(ma).OwnFs(mi).I(s.CountTicks(1))
				if tl, ok := s.TicksAtLevel(guess % 3).([]float64); ok {
					r.OwnFs(tl)
				}
				lv, ok := o.FindLevel(s, guess)
				r.I(lv).B(ok)
				lv, ok = o.FindLevel(p.lin[0], guess)
				r.I(lv).B(ok)
				qq := scale.QQ{Src: s, Dest: &p.lin[0]}
				r.F(qq.Map(x)).F(qq.Unmap(2.5))
			}}
		}),
		E("graph.basic", []string{"graph.MakeBiGraph", "graph.Equal", "graph.IntGraph.NumNodes", "graph.IntGraph.Out", "graph.WeightedUnit.NumNodes", "graph.WeightedUnit.Out", "graph.WeightedUnit.OutWeight"}, func(g simkit.G, p *pool) call {
			i := g.Intn(len(p.igraphs))
			perm := make([][]int, len(p.adj[i]))
			for u, row := range p.adj[i] {
				pr := g.Perm(len(row))
				perm[u] = make([]int, len(row))
				for k, pi := range pr {
					perm[u][k] = row[pi]
				}
			}
			return call{desc: fmt.Sprintf("graph %d (Equal against a permuted copy: sort path)", i), run: func(r *R) {
				gr := p.igraphs[i]
				bg := graph.MakeBiGraph(gr)
				for u := 0; u < bg.NumNodes(); u++ {
					r.Is(bg.In(u))
				}
				// shared bigraph
				for u := 0; u < p.bi.NumNodes(); u++ {
					r.Is(p.bi.In(u)).Is(p.bi.Out(u))
				}
				r.B(graph.Equal(gr, graph.IntGraph(perm))).B(graph.Equal(gr, p.igraphs[(i+1)%len(p.igraphs)]))
				wu := graph.WeightedUnit{Graph: gr}
				r.I(wu.NumNodes()).F(wu.OutWeight(0, 0))
			}}
		}),
		E("graph.Subgraph", []string{"graph.SubgraphKeep", "graph.SubgraphRemove"}, func(g simkit.G, p *pool) call {
			i := g.Intn(len(p.igraphs))
			return call{desc: fmt.Sprintf("graph %d keep/remove nodes[%d] edges[%d]", i, i, i), run: func(r *R) {
				encSub := func(s graph.Subgraph) {
					nm := s.NodeMap(func(n int) interface{} { return n })
					em := s.EdgeMap(func(n, e int) interface{} { return n*100 + e })
					r.I(s.NumNodes())
					for u := 0; u < s.NumNodes(); u++ {
						r.Is(s.Out(u)).Any(nm(u))
						for e := range s.Out(u) {
							r.Any(em(u, e))
						}
					}
				}
				encSub(graph.SubgraphKeep(p.igraphs[i], p.nodes[i], p.edges[i]))
				encSub(graph.SubgraphRemove(p.igraphs[i], p.nodes[i], p.edges[i]))
				encSub(p.sub)
			}}
		}),
		E("graphalg.orders", []string{"graphalg.PreOrder", "graphalg.PostOrder", "graphalg.Euler.Visit"}, func(g simkit.G, p *pool) call {
			i := g.Intn(len(p.igraphs))
			root := g.Intn(len(p.adj[i]))
			stub := g.Chance(1, 2)
			crash := 0
			if g.Chance(1, 5) {
				crash = 1 + g.Intn(3)
			}
			big := p.big != nil && g.Chance(1, 2)
			if big {
				root = g.Intn(8)
			}
			return call{desc: fmt.Sprintf("graph %d root=%d stub=%v crashEnterAt=%d big=%v", i, root, stub, crash, big), run: func(r *R) {
				var gr graph.Graph = p.igraphs[i]
				if stub {
					gr = &simenv.SimGraph{Adj: p.adj[i]}
				}
				if big {
					gr = p.big
				}
				r.OwnIs(graphalg.PreOrder(gr, root)).OwnIs(graphalg.PostOrder(gr, root))
				var ev []int
				calls := 0
				e := graphalg.Euler{
					Enter: func(n int) {
						calls++
						if crash > 0 && calls == crash {
							panic(&simenv.Crash{Where: "Euler.Enter"})
						}
						ev = append(ev, n)
					},
					Exit: func(n int) { ev = append(ev, -n-1) },
				}
				pv, _ := simkit.Try(func() { e.Visit(gr, root) })
				if pv != nil {
					if a, ok := simkit.IsAbort(pv); ok {
						panic(a)
					}
					r.S("aborted: " + simkit.PanicString(pv))
				}
				r.Is(ev)
			}}
		}),
		E("graphalg.SCC", []string{"graphalg.SCC", "graphalg.SCCGraph.NumNodes", "graphalg.SCCGraph.Out", "graphalg.SCCGraph.Subnodes", "graphalg.SCCGraph.SubnodeComponent", "graphalg.SimplifyMulti"}, func(g simkit.G, p *pool) call {
			i := g.Intn(len(p.igraphs))
			return call{desc: fmt.Sprintf("graph %d", i), run: func(r *R) {
				enc := func(s *graphalg.SCCGraph, n int) {
					r.I(s.NumNodes())
					for c := 0; c < s.NumNodes(); c++ {
						r.Is(s.Subnodes(c)).Is(s.Out(c))
					}
					for u := 0; u < n; u++ {
						r.I(s.SubnodeComponent(u))
					}
				}
				enc(graphalg.SCC(p.igraphs[i], graphalg.SCCEdges), len(p.adj[i]))
				enc(p.scc, len(p.adj[0]))
				encW := func(w graph.Weighted) {
					for u := 0; u < w.NumNodes(); u++ {
						// successor order is unspecified (map iteration): canonicalise as a sorted multiset
						out := append([]int(nil), w.Out(u)...)
						ws := make([]float64, len(out))
						for e := range out {
							ws[e] = w.OutWeight(u, e)
						}
						sortPairs(out, ws)
						r.Is(out).Fs(ws)
					}
				}
				encW(graphalg.SimplifyMulti(p.igraphs[i]))
				encW(p.simpl)
			}}
		}),
		E("graphalg.dominators", []string{"graphalg.IDom", "graphalg.Dom", "graphalg.DomFrontier", "graphalg.DomTree.IDom", "graphalg.DomTree.In", "graphalg.DomTree.NumNodes", "graphalg.DomTree.Out"}, func(g simkit.G, p *pool) call {
			i := g.Intn(len(p.igraphs))
			return call{desc: fmt.Sprintf("graph %d root 0", i), run: func(r *R) {
				bg := graph.MakeBiGraph(p.igraphs[i])
				idom := graphalg.IDom(bg, 0)
				r.Is(idom)
				for _, fr := range graphalg.DomFrontier(bg, 0, idom) {
					r.Is(fr)
				}
				// shared inputs: p.bi, p.idom, p.dom
				for _, fr := range graphalg.DomFrontier(p.bi, 0, p.idom) {
					r.OwnIs(fr)
				}
				for _, fr := range graphalg.DomFrontier(p.bi, 0, nil) {
					r.OwnIs(fr)
				}
				dt := graphalg.Dom(p.idom)
				for _, t := range []*graphalg.DomTree{dt, p.dom} {
					for u := 0; u < t.NumNodes(); u++ {
						r.I(t.IDom(u)).Is(t.Out(u))
						if t.IDom(u) >= 0 {
							r.Is(t.In(u))
						}
					}
				}
			}}
		}),
		E("graphout.Dot", []string{"graphout.Dot.Fprint", "graphout.Dot.Sprint"}, func(g simkit.G, p *pool) call {
			i := g.Intn(len(p.igraphs))
			failAt := -1
			if g.Chance(1, 3) {
				failAt = g.Intn(12)
			}
			useAttrs := g.Chance(2, 3)
			return call{desc: fmt.Sprintf("graph %d attrs=%v writerFailAt=%d", i, useAttrs, failAt), run: func(r *R) {
				d := graphout.Dot{Name: "g|\"x\""}
				if useAttrs {
					d.NodeAttrs = func(n int) []graphout.DotAttr { return p.attrs[n%len(p.attrs)] }
					d.EdgeAttrs = func(n, e int) []graphout.DotAttr { return p.attrs[(n+e)%len(p.attrs)] }
				}
				d.Label = func(n int) string { return fmt.Sprintf("n<%d>", n) }
				r.S(d.Sprint(p.igraphs[i]))
				w := &simenv.SimWriter{FailAt: failAt, Short: 3}
				err := d.Fprint(w, p.igraphs[i])
				r.Err(err).S(string(w.Buf)).S(graphout.DotString("a\\b\n{c}"))
			}}
		}),
	}
}

func maxInt(a, b int) int {
	if a > b {
		return a
	}
	return b
}

func sortPairs(out []int, ws []float64) {
	for i := 1; i < len(out); i++ {
		for j := i; j > 0 && (out[j] < out[j-1] || out[j] == out[j-1] && ws[j] < ws[j-1]); j-- {
			out[j], out[j-1] = out[j-1], out[j]
			ws[j], ws[j-1] = ws[j-1], ws[j]
		}
	}
}

// apiExcluded lists API names that are deliberately not called on the shared
// pool, with the reason (documented in-place operations run on task-private
// objects in history mode; see private.go).
var apiExcluded = [][2]string{
	{"stats.Sample.Sort", "documented in-place operation (task-private objects only)"},
	{"stats.StreamStats.Combine", "documented in-place operation (task-private objects only)"},
	{"stats.LinearHist.Add", "documented in-place operation (task-private objects only)"},
	{"stats.LogHist.Add", "documented in-place operation (task-private objects only)"},
	{"graphalg.NodeMarks.Mark", "documented in-place operation (task-private objects only)"},
	{"graphalg.NodeMarks.Unmark", "documented in-place operation (task-private objects only)"},
	{"graphalg.NodeMarks.Next", "read of a task-private mark set"},
	{"graphalg.NodeMarks.Test", "read of a task-private mark set"},
	{"graphalg.Reverse", "documented in-place operation (task-private slices only)"},
	{"graphout.Dot.Print", "writes to the process's real stdout, which is not a simulated seam; Fprint is the same code"},
}
