package c20

import (
	"fmt"

	"github.com/aclements/go-moremath/graph"
	"github.com/aclements/go-moremath/graph/graphalg"
	"github.com/aclements/go-moremath/graph/graphout"
	"github.com/aclements/go-moremath/scale"
	"github.com/aclements/go-moremath/stats"
	"github.com/aclements/go-moremath/vec"
	"verif.local/harness/simenv"
	"verif.local/harness/simkit"
)

// intervening is an "unrelated intervening call" of history mode: documented
// in-place operations on private objects, aborted calls (callback crash),
// and knob changes that are restored. The oracle afterwards is that only the
// documented target changed (the shared pool is untouched) and that later
// calls return what they returned before.
type intervening struct {
	name string
	run  func()
}

func genIntervening(g simkit.G, p *pool) intervening {
	switch g.Intn(12) {
	case 0:
		xs := append([]float64(nil), p.fl[g.Intn(len(p.fl))]...)
		ws := append([]float64(nil), xs...)
		return intervening{"private Sample.Sort", func() {
			s := stats.Sample{Xs: xs, Weights: ws}
			s.Sort()
		}}
	case 1:
		is := append([]int(nil), p.nodes[0]...)
		return intervening{"private graphalg.Reverse", func() { graphalg.Reverse(is) }}
	case 2:
		l := p.lin[0]
		return intervening{"private Linear.Nice/SetClamp", func() {
			l.Nice(scale.TickOptions{Max: 5})
			l.SetClamp(true)
		}}
	case 3:
		lg := *p.logs[0]
		return intervening{"private Log.Nice/SetClamp", func() {
			lg.Nice(scale.TickOptions{Max: 4})
			lg.SetClamp(true)
		}}
	case 4:
		x := 3 * g.Unit()
		return intervening{"private histogram Add", func() {
			h := stats.NewLinearHist(0, 4, 4)
			h.Add(x)
			h.Add(-1)
			lh := stats.NewLogHist(2, 1, 64)
			lh.Add(1 + x)
		}}
	case 5:
		xs := append([]float64(nil), p.fl[2]...)
		return intervening{"private StreamStats Add/Combine", func() {
			var a, b stats.StreamStats
			for i, x := range xs {
				if i%2 == 0 {
					a.Add(x)
				} else {
					b.Add(x)
				}
			}
			a.Combine(&b)
		}}
	case 6:
		k := g.Range(0, 3000)
		return intervening{"private NodeMarks", func() {
			var m graphalg.NodeMarks
			m.Mark(k)
			m.Mark(k / 2)
			m.Unmark(k)
			m.Test(k)
			m.Next(-1)
		}}
	case 7:
		xs := append([]float64(nil), p.fl[3]...)
		return intervening{"private KDE with zero bandwidth (first use fills it)", func() {
			k := &stats.KDE{Sample: stats.Sample{Xs: xs}}
			k.PDF(1)
			k.CDF(1)
		}}
	case 8:
		el, tl := []int{0, 3, 50, 500}[g.Intn(4)], []int{0, 4, 25}[g.Intn(3)]
		x1 := append([]float64(nil), p.fl[2]...)
		x2 := append([]float64(nil), p.fl[4]...)
		return intervening{fmt.Sprintf("knob change ExactLimit=%d TiesExactLimit=%d around an unrelated MannWhitneyUTest, restored", el, tl), func() {
			oe, ot := stats.MannWhitneyExactLimit, stats.MannWhitneyTiesExactLimit
			stats.MannWhitneyExactLimit, stats.MannWhitneyTiesExactLimit = el, tl
			defer func() { stats.MannWhitneyExactLimit, stats.MannWhitneyTiesExactLimit = oe, ot }()
			stats.MannWhitneyUTest(x1, x2, stats.LocationDiffers)
		}}
	case 10:
		y := 0.3 + 0.6*g.Unit()
		return intervening{fmt.Sprintf("aborted call of the shared InvCDF closure (the distribution's CDF panics), y=%v", y), func() {
			p.crashD.armed = true
			defer func() { p.crashD.armed = false }()
			p.invS(y)
		}}
	case 9:
		adj := p.adj[g.Intn(len(p.adj))]
		at := 1 + g.Intn(4)
		return intervening{fmt.Sprintf("aborted Euler.Visit (Enter panics on call %d)", at), func() {
			n := 0
			e := graphalg.Euler{Enter: func(int) {
				n++
				if n == at {
					panic(&simenv.Crash{Where: "Euler.Enter"})
				}
			}}
			e.Visit(&simenv.SimGraph{Adj: adj}, 0)
		}}
	default:
		xs := append([]float64(nil), p.fl[2]...)
		adj := p.adj[0]
		return intervening{"vec.Map on private data, then aborted Dot.Fprint (Label panics)", func() {
			// vec.Map's documentation allows f to be evaluated in parallel, so a
			// panic in f is not guaranteed to reach the caller: no crash is injected there.
			vec.Map(func(x float64) float64 { return x + 1 }, xs)
			d := graphout.Dot{Label: func(n int) string {
				if n == 1 {
					panic(&simenv.Crash{Where: "Dot.Label"})
				}
				return "x"
			}}
			d.Fprint(&simenv.SimWriter{FailAt: -1}, graph.IntGraph(adj))
		}}
	}
}
