// Package c20 is the simulation with a true schedule dimension (DESIGN.md
// §4.1): 2-16 simulated caller tasks issue catalogue operations on a shared,
// frozen input pool; a seeded scheduler decides every interleaving at
// statement-level yield points. Oracles: O1 inputs untouched (invariant at
// every task switch, after every operation and every 64th yield, including
// spare capacity), O2 deterministic whatever came before (history mode under
// a different map-iteration permutation), O3 same answers under every
// interleaving and - in the -race build, under the same controlled schedule -
// no data race.
package c20

import (
	"fmt"

	"github.com/aclements/go-moremath/stats"
	"verif.local/harness/simkit"
	"verif.local/simhook"
)

type Prop struct {
	St  *simkit.Stats
	cat []entry
	rl  *raceLog
}

func New() *Prop {
	return &Prop{St: simkit.NewStats(), cat: catalogue(), rl: newRaceLog()}
}
func (p *Prop) ID() string           { return "C20" }
func (p *Prop) Stats() *simkit.Stats { return p.St }

// RaceChunk is the number of runs per short-lived race worker process; the
// first run of each chunk uses the full catalogue (cold package state).
const RaceChunk = 20

func (p *Prop) Meta() simkit.Meta {
	return simkit.Meta{
		Rule: "one run = a drawn shared input pool (unsorted float slices with ties, Samples, tie vectors, IntGraph/SimGraph adjacency, node/edge lists, DotAttr lists, KDEs with preset bandwidth, filled histograms, scales, and shared result objects: LOESS closure, regression, SCCGraph, Subgraph, bigraph, idom, DomTree, InvCDF closure; every slice has sentinel-filled spare capacity), 2-12 drawn catalogue calls, and three phases: reference (sequential, canonical map order), history (calls re-executed in a drawn order between drawn unrelated in-place / aborted / knob-changing calls under a drawn map-iteration permutation) and concurrent (2-16 tasks, each a drawn list of the calls, interleaved by a drawn policy: random(gap)/pct(d)/starve/seq). distinct = distinct hashes of the (from,to,site) sequence at switch points of the concurrent phase combined with the call list; non-trivial = at least one task switch taken at a yield point inside a library call",
		Real: []string{"every package of the library (instrumented copy): stats, fit, vec, scale, graph, graphalg, graphout, mathx", "gonum (fit/lsquares)"},
		Stub: []string{"the callers (2-16 simulated tasks)", "io.Writer (SimWriter)", "rand.Source (scripted SimSource)", "graph.Graph (SimGraph)", "stats.DistCommon (simDist)", "callbacks (terms, Euler, Dot, vec.Map)"},
		Assumptions: []string{
			"the harness's own callbacks are pure; all harness state touched by more than one task is accessed only from //go:norace functions",
			"documented in-place operations (Sample.Sort, Reverse, Nice, SetClamp, Add, Combine, Mark, Unmark, a zero-bandwidth KDE's first use) are applied to task-private objects only; Rand(d)(nil) (process-global source) is not called",
			"results are canonicalised to bytes (Float64bits; errors and panics by text): C20 asks whether the answer is the same, not whether it is right",
			"the race detector's shadow cells can evict an access under very heavy sharing of one word (a miss, never a false report)",
			"a loop with an empty body cannot be pre-empted (no statement to yield before): covered by the wall-clock watchdog (exit 2)",
		},
		FaultKinds:    []string{"writer_error_or_short_write", "callback_crash", "task_stall", "rare_source_output", "adversarial_map_order", "knob_randomisation", "sync_operation_decisions (SyncBias)", "gomaxprocs_knob"},
		NotApplicable: []string{"message loss/duplication/reordering", "partitions", "crash-restart with durable state", "torn/lost disk writes", "disk full", "clock skew/jumps", "allocation or syscall failure"},
		RunsQuick:     24000, RunsThorough: 600000,
		RaceRunsQuick: 1200, RaceRunsThorou: 30000,
	}
}

type plan struct {
	calls     []call
	entry     []int // catalogue entry of each call
	taskCalls [][]int
	policy    simhook.Policy
	histOrder []int
	histIvs   [][]intervening // intervening calls before each position
	histSibs  []*call         // a call of the same catalogue entry with other arguments, run just before (nil: none)
}

type runCtx struct {
	p    *Prop
	opt  simkit.RunOpt
	pl   *pool
	pln  *plan
	sh   *shared
	ref  []uint64
	refS []uint64
	hist []string
	ft   []string
}

func (c *runCtx) logf(format string, a ...any) {
	if c.opt.KeepHistory {
		c.hist = append(c.hist, fmt.Sprintf(format, a...))
	}
}

// exec runs one call and returns the hash of its canonical result. A library
// panic is a (deterministic) result; an Abort is re-raised.
func exec(cl *call) (h uint64, aborted *simhook.Abort) {
	h, _, aborted = exec2(cl)
	return
}

// exec2 also returns the message of an in-call oracle failure ("" if none).
func exec2(cl *call) (h uint64, fail string, aborted *simhook.Abort) {
	r := &R{}
	simhook.BeginOp()
	pv, _ := simkit.Try(func() { cl.run(r) })
	if pv != nil {
		if a, ok := simkit.IsAbort(pv); ok {
			return 0, "", a
		}
		r = (&R{}).S("panic: " + simkit.PanicString(pv))
	}
	return r.hash(), r.viol, nil
}

// invariant is O1: every shared input is bit-identical to its snapshot.
func (c *runCtx) invariant(task int, when string) bool {
	if name := c.pl.check(); name != "" {
		op := c.sh.inside(task)
		if op == "" {
			op = when
		}
		c.sh.setViol(&simkit.Violation{Property: "C20", Oracle: "C20/O1-input-mutated", Op: op, Seq: simhook.Seq(), Sig: name[:indexOf(name, '[')],
			Message: fmt.Sprintf("%s was modified (checked %s; task %d was running %q): the library must not modify its inputs, not even transiently", name, when, task, op)})
		return false
	}
	return true
}

func indexOf(s string, ch byte) int {
	for i := 0; i < len(s); i++ {
		if s[i] == ch {
			return i
		}
	}
	return len(s)
}

const (
	runBudget = 90000000
	opBudget  = 48000000
)

func (p *Prop) Run(t *simhook.Tape, opt simkit.RunOpt) *simkit.RunResult {
	g := simkit.Work(t)
	c := &runCtx{p: p, opt: opt, sh: &shared{}}
	race := simhook.RaceBuild
	cold := race && opt.RunIndex%RaceChunk == 0

	// ---- workload: drawn completely before the first task starts ----
	c.pl = buildPool(g)
	pln := &plan{}
	c.pln = pln
	if cold {
		for i := range p.cat {
			cl := p.cat[i].gen(g, c.pl)
			cl.name = p.cat[i].name
			pln.calls = append(pln.calls, cl)
			pln.entry = append(pln.entry, i)
		}
	} else {
		n := g.Range(2, 12)
		// swarm: in one run of six every call comes from the same catalogue entry
		// (with different arguments), so that all tasks are inside the same library
		// code at once - where per-function shared state lives
		focus := -1
		if g.Chance(1, 6) {
			focus = g.Intn(len(p.cat))
			if opt.Counting {
				p.St.Probes.Inc("focused_runs_single_entry")
			}
		}
		for i := 0; i < n; i++ {
			e := g.Intn(len(p.cat))
			if focus >= 0 {
				e = focus
			}
			cl := p.cat[e].gen(g, c.pl)
			cl.name = p.cat[e].name
			pln.calls = append(pln.calls, cl)
			pln.entry = append(pln.entry, e)
		}
	}
	ntasks := 2 + g.Pick(4, 3, 3, 2, 1, 1, 1, 0, 0, 0, 0, 0, 0, 0, 1)
	if cold {
		ntasks = 3
	}
	if c.pl.huge != nil && ntasks > 4 {
		// a call on the huge slice costs ~25 yields per element: keep the run within its step budget
		ntasks = 4
	}
	if len(c.pl.huge) > 100000 && ntasks > 2 {
		ntasks = 2
	}
	for tk := 0; tk < ntasks; tk++ {
		var lst []int
		if cold {
			lst = g.Perm(len(pln.calls))
		} else {
			k := g.Range(1, 6)
			if c.pl.huge != nil && k > 2 {
				k = 2
			}
			for i := 0; i < k; i++ {
				lst = append(lst, g.Intn(len(pln.calls)))
			}
			if tk > 0 && g.Chance(1, 3) {
				lst[0] = pln.taskCalls[0][0] // two tasks start inside the same call
			}
		}
		pln.taskCalls = append(pln.taskCalls, lst)
	}
	// policy (swarm style). The race build pays ~30us per switch: sparse policies only.
	if race {
		switch g.Pick(3, 3, 2) {
		case 0:
			pln.policy = simhook.Policy{Kind: simhook.PRandom, Gap: []uint64{150, 1500, 15000}[g.Intn(3)]}
		case 1:
			pln.policy = simhook.Policy{Kind: simhook.PPCT, D: g.Range(1, 3), K: []uint64{300, 3000, 30000, 300000}[g.Intn(4)]}
		default:
			pln.policy = simhook.Policy{Kind: simhook.PStarve, Gap: []uint64{150, 1500}[g.Intn(2)], Victim: g.Intn(ntasks), VictimAt: uint64(g.Range(1, 3000))}
		}
	} else {
		switch g.Pick(6, 3, 2, 1) {
		case 0:
			pln.policy = simhook.Policy{Kind: simhook.PRandom, Gap: []uint64{1, 1, 10, 100, 1000}[g.Intn(5)]}
		case 1:
			pln.policy = simhook.Policy{Kind: simhook.PPCT, D: g.Range(1, 3), K: []uint64{100, 1000, 10000, 100000}[g.Intn(4)]}
		case 2:
			pln.policy = simhook.Policy{Kind: simhook.PStarve, Gap: []uint64{1, 10, 100}[g.Intn(3)], Victim: g.Intn(ntasks), VictimAt: uint64(g.Range(1, 3000))}
		default:
			pln.policy = simhook.Policy{Kind: simhook.PSeq}
		}
	}
	if simhook.SyncSites > 0 && pln.policy.Kind != simhook.PSeq && g.Chance(1, 2) {
		// the (changed) library uses sync primitives: in half of the runs every
		// synchronisation operation is a scheduling decision
		pln.policy.SyncBias = true
	}
	if c.pl.huge != nil && pln.policy.Gap > 0 && pln.policy.Gap < 2000 {
		// the invariant re-reads the whole pool: with a 16k-element slice in it a
		// decision at every yield would cost seconds per call
		pln.policy.Gap = 2000
	}
	if !race && opt.RunIndex%8 == 7 {
		// (these runs have the concurrent phase first, see below) every task starts
		// inside the same call, and every synchronisation operation is a decision:
		// the first use of whatever that call shares is contended
		for tk := 1; tk < len(pln.taskCalls); tk++ {
			pln.taskCalls[tk][0] = pln.taskCalls[0][0]
		}
		if simhook.SyncSites > 0 && pln.policy.Kind != simhook.PSeq {
			pln.policy.SyncBias = true
		}
	}
	// history plan
	pln.histOrder = g.Perm(len(pln.calls))
	for _, ci := range pln.histOrder {
		// state keyed by function rather than by argument (a stale one-entry cache,
		// a warm start) shows when the same entry point is called with other
		// arguments just before
		var sib *call
		if g.Chance(1, 2) {
			sc := p.cat[pln.entry[ci]].gen(g, c.pl)
			sc.name = p.cat[pln.entry[ci]].name
			sib = &sc
		}
		pln.histSibs = append(pln.histSibs, sib)
		var ivs []intervening
		for k := g.Pick(2, 3, 1); k > 0; k-- {
			ivs = append(ivs, genIntervening(g, c.pl))
		}
		pln.histIvs = append(pln.histIvs, ivs)
	}
	polName := simhook.PolicyNames[pln.policy.Kind]
	if opt.Counting {
		p.St.Policies.Inc(polName)
		p.St.Faults.Inc("knob_randomisation")
		for i := range pln.calls {
			p.St.Ops.Inc("entry:" + pln.calls[i].name)
		}
		if opt.RunIndex < 2 || cold {
			for i := range p.cat {
				for _, a := range p.cat[i].api {
					p.St.Ops.Touch("api:" + a)
				}
			}
			for _, ex := range apiExcluded {
				p.St.Ops.Inc("api-excluded:" + ex[0])
			}
		}
	}
	c.logf("pool built; knobs ExactLimit=%d TiesExactLimit=%d; %d calls; %d tasks; policy %s %+v", c.pl.knobEL, c.pl.knobTL, len(pln.calls), ntasks, polName, pln.policy)
	for i := range pln.calls {
		c.logf("call %d: %s (%s)", i, pln.calls[i].name, pln.calls[i].desc)
	}
	for tk, lst := range pln.taskCalls {
		c.logf("task %d runs calls %v", tk, lst)
	}

	// knobs: per-run randomised configuration, restored afterwards
	oe, ot := stats.MannWhitneyExactLimit, stats.MannWhitneyTiesExactLimit
	stats.MannWhitneyExactLimit, stats.MannWhitneyTiesExactLimit = c.pl.knobEL, c.pl.knobTL
	defer func() { stats.MannWhitneyExactLimit, stats.MannWhitneyTiesExactLimit = oe, ot }()

	rr := &simkit.RunResult{Policy: polName, Extra: map[string]any{}}
	var conc *concResult
	var abort *simhook.Abort
	if race {
		// cold state: the concurrent phase runs first, the reference afterwards (DESIGN.md §3.5)
		conc, abort = c.concurrent(t, ntasks)
		if c.sh.getViol() == nil && abort == nil {
			abort = c.reference(t)
		}
	} else if opt.RunIndex%4 == 3 {
		// the same order in a quarter of the plain runs: the run's shared result
		// objects (closures, trees, lazily completed structures) meet their FIRST
		// use inside the interleaving, not in the sequential pass - a first-use
		// logic error that synchronises correctly is invisible to the race detector
		if opt.Counting {
			p.St.Probes.Inc("plain_runs_concurrent_phase_first")
		}
		conc, abort = c.concurrent(t, ntasks)
		if c.sh.getViol() == nil && abort == nil {
			abort = c.reference(t)
		}
		if c.sh.getViol() == nil && abort == nil {
			abort = c.history(t)
		}
	} else {
		abort = c.reference(t)
		if c.sh.getViol() == nil && abort == nil {
			abort = c.history(t)
		}
		if c.sh.getViol() == nil && abort == nil {
			conc, abort = c.concurrent(t, ntasks)
		}
	}
	if conc != nil {
		rr.Steps += conc.res.Steps
		rr.Switches = conc.res.Switches
		rr.SchedTrace = conc.res.Trace
		rr.Nontrivial = conc.res.MidSwitches > 0
		h := simkit.NewHasher()
		h.Word(conc.res.Hash)
		for i := range pln.calls {
			h.Str(pln.calls[i].name)
		}
		rr.Hash = uint64(h)
		if opt.Counting {
			if conc.res.Stalled {
				p.St.Faults.Inc("task_stall")
			}
			p.St.Probes.Add("tasks_inside_same_entry_simultaneously", int64(c.sh.overlapSame))
			p.St.Probes.Add("tasks_inside_library_simultaneously", int64(c.sh.overlapAny))
			p.St.Probes.Add("switches_inside_library_calls", int64(conc.res.MidSwitches))
			p.St.Probes.Add("lock_spins", int64(conc.res.LockSpins))
			p.St.Probes.Add("atomic_sections", int64(conc.res.AtomicSecs))
			p.St.Probes.Add("decisions_at_sync_operations", int64(conc.res.SyncYields))
		}
		// O3: same answers as the sequential reference
		if c.sh.getViol() == nil && abort == nil && c.ref != nil {
			for tk, lst := range pln.taskCalls {
				for k, ci := range lst {
					if k >= len(conc.results[tk]) {
						break
					}
					if conc.results[tk][k] != c.ref[ci] {
						c.sh.setViol(&simkit.Violation{Property: "C20", Oracle: "C20/O3-result-differs", Op: pln.calls[ci].name, Seq: conc.res.Steps, Sig: polName,
							Message: fmt.Sprintf("task %d, call %d (%s: %s) returned a different result under the %s schedule than sequentially (result hash %016x vs %016x)", tk, ci, pln.calls[ci].name, pln.calls[ci].desc, polName, conc.results[tk][k], c.ref[ci])})
						break
					}
				}
				if c.sh.getViol() != nil {
					break
				}
			}
		}
		// O3: no data race under the controlled schedule
		if race && c.sh.getViol() == nil {
			if rep := p.rl.poll(); rep != nil {
				c.sh.setViol(&simkit.Violation{Property: "C20", Oracle: "C20/O3-data-race", Op: rep.op, Seq: conc.res.Steps, Sig: rep.sig,
					Message: "the race detector reported a data race between simulated callers sharing read-only inputs (schedule decided by the tape):\n" + rep.text})
				rr.Extra["race_report"] = rep.text
			}
		}
	}
	if abort != nil && !simkit.AbortIsVerdict(abort) {
		rr.BudgetHit = true
	}
	if simkit.AbortIsVerdict(abort) && c.sh.getViol() == nil {
		c.sh.setViol(&simkit.Violation{Property: "C20", Oracle: "C20/no-progress", Op: "run", Message: abort.Reason + abort.Where()})
		rr.BudgetHit = true
	}
	// digest of all results for the determinism self-test
	d := simkit.NewHasher()
	for _, h := range c.ref {
		d.Word(h)
	}
	if conc != nil {
		for _, rs := range conc.results {
			for _, h := range rs {
				d.Word(h)
			}
		}
		d.Word(conc.res.Hash)
		d.Word(conc.res.Steps)
	}
	rr.Extra["result_digest"] = uint64(d)
	rr.Violation = c.sh.getViol()
	rr.History = c.hist
	rr.FaultTrace = c.ft
	return rr
}

// reference executes every call once, sequentially, in canonical map order.
func (c *runCtx) reference(t *simhook.Tape) *simhook.Abort {
	c.ref = make([]uint64, len(c.pln.calls))
	c.refS = make([]uint64, len(c.pln.calls))
	var ab *simhook.Abort
	res := simhook.Run(simhook.Config{Tape: t, Policy: simhook.Policy{Kind: simhook.PSeq}, RunBudget: runBudget, OpBudget: opBudget, CanonicalMaps: true},
		[]func(int){func(int) {
			for i := range c.pln.calls {
				before := simhook.Seq()
				c.sh.enter(0, c.pln.calls[i].name, 1)
				h, fail, a := exec2(&c.pln.calls[i])
				if a != nil {
					ab = a
					return
				}
				if fail != "" {
					c.sh.setViol(&simkit.Violation{Property: "C20", Oracle: "C20/O2-equal-state-differs", Op: c.pln.calls[i].name, Seq: simhook.Seq(),
						Message: fmt.Sprintf("call %d (%s: %s): %s", i, c.pln.calls[i].name, c.pln.calls[i].desc, fail)})
					return
				}
				c.ref[i] = h
				c.refS[i] = simhook.Seq() - before
				ok := c.invariant(0, "after the call, sequential reference pass")
				c.sh.leave(0)
				if !ok {
					return
				}
			}
		}})
	_ = res
	c.logf("reference pass: %d calls", len(c.pln.calls))
	return ab
}

// history is O2: re-execution in a drawn order between unrelated intervening
// calls, under a different (drawn) map-iteration permutation.
func (c *runCtx) history(t *simhook.Tape) *simhook.Abort {
	var ab *simhook.Abort
	crashes := 0
	res := simhook.Run(simhook.Config{Tape: t, Policy: simhook.Policy{Kind: simhook.PSeq}, RunBudget: runBudget, OpBudget: opBudget, CanonicalMaps: false},
		[]func(int){func(int) {
			for pos, ci := range c.pln.histOrder {
				for _, iv := range c.pln.histIvs[pos] {
					c.logf("history: intervening %s", iv.name)
					simhook.BeginOp()
					pv, _ := simkit.Try(iv.run)
					if pv != nil {
						if a, ok := simkit.IsAbort(pv); ok {
							ab = a
							return
						}
						crashes++
						if c.opt.KeepHistory {
							c.ft = append(c.ft, "callback_crash: "+iv.name)
						}
					}
					c.sh.enter(0, iv.name, 1)
					ok := c.invariant(0, "after an intervening in-place/aborted call in history mode (only the documented target may change)")
					c.sh.leave(0)
					if !ok {
						return
					}
				}
				if sib := c.pln.histSibs[pos]; sib != nil {
					c.logf("history: same entry with other arguments first: %s (%s)", sib.name, sib.desc)
					c.sh.enter(0, sib.name, 1)
					if _, a := exec(sib); a != nil {
						ab = a
						return
					}
					ok := c.invariant(0, "after a sibling call, history mode")
					c.sh.leave(0)
					if !ok {
						return
					}
				}
				c.sh.enter(0, c.pln.calls[ci].name, 1)
				h, a := exec(&c.pln.calls[ci])
				if a != nil {
					ab = a
					return
				}
				c.logf("history: call %d again", ci)
				ok := c.invariant(0, "after the call, history mode")
				c.sh.leave(0)
				if !ok {
					return
				}
				if h != c.ref[ci] {
					c.sh.setViol(&simkit.Violation{Property: "C20", Oracle: "C20/O2-nondeterministic", Op: c.pln.calls[ci].name, Seq: simhook.Seq(),
						Message: fmt.Sprintf("call %d (%s: %s) repeated with equal arguments after unrelated intervening calls (and a different map iteration order) returned a different result (hash %016x vs %016x)", ci, c.pln.calls[ci].name, c.pln.calls[ci].desc, h, c.ref[ci])})
					return
				}
			}
		}})
	if c.opt.Counting {
		c.p.St.Faults.Add("callback_crash", int64(crashes))
		c.p.St.Faults.Add("adversarial_map_order", int64(res.MapPerms))
		c.p.St.Probes.Add("map_ranges_under_noncanonical_permutation", int64(res.MapPerms))
		c.p.St.Probes.Add("callback_crashes_recovered", int64(crashes))
	}
	return ab
}

// yieldEvery is how often (in yields) O1 is evaluated inside a call.
func (c *runCtx) yieldEvery() uint64 {
	if c.pl.huge != nil {
		return 4096
	}
	return 64
}

type concResult struct {
	res     simhook.Result
	results [][]uint64
}

// concurrent is O3 (and O1 at every step): the tasks run interleaved.
func (c *runCtx) concurrent(t *simhook.Tape, ntasks int) (*concResult, *simhook.Abort) {
	cr := &concResult{results: make([][]uint64, ntasks)}
	aborts := make([]*simhook.Abort, ntasks)
	fns := make([]func(int), ntasks)
	for tk := 0; tk < ntasks; tk++ {
		fns[tk] = func(id int) {
			for _, ci := range c.pln.taskCalls[id] {
				if c.sh.stopped() || simhook.OverBudget() {
					return
				}
				c.sh.enter(id, c.pln.calls[ci].name, ntasks)
				h, a := exec(&c.pln.calls[ci])
				if a != nil {
					aborts[id] = a
					c.sh.leave(id)
					return
				}
				cr.results[id] = append(cr.results[id], h)
				c.invariant(id, "after the call, concurrent phase")
				c.sh.leave(id)
			}
		}
	}
	cr.res = simhook.Run(simhook.Config{
		Tape: t, Policy: c.pln.policy, RunBudget: runBudget, OpBudget: opBudget, CanonicalMaps: false, TraceCap: 400,
		OnSwitch:   func(from, to int) { c.invariant(from, "at a task switch") },
		OnYield:    func(task int) { c.invariant(task, "at a yield point inside the call") },
		YieldEvery: c.yieldEvery(),
	}, fns)
	if c.opt.Counting {
		c.p.St.Faults.Add("adversarial_map_order", int64(cr.res.MapPerms))
		c.p.St.Probes.Add("map_ranges_under_noncanonical_permutation", int64(cr.res.MapPerms))
	}
	var ab *simhook.Abort
	for _, a := range aborts {
		if a != nil {
			ab = a
		}
	}
	if cr.res.Deadlock {
		ab = &simhook.Abort{Reason: "deadlock among simulated callers"}
	}
	c.logf("concurrent phase: %d steps, %d switches (%d inside library calls)", cr.res.Steps, cr.res.Switches, cr.res.MidSwitches)
	return cr, ab
}
