package c20

import (
	"fmt"
	"math"

	"github.com/aclements/go-moremath/fit"
	"github.com/aclements/go-moremath/graph"
	"github.com/aclements/go-moremath/graph/graphalg"
	"github.com/aclements/go-moremath/graph/graphout"
	"github.com/aclements/go-moremath/scale"
	"github.com/aclements/go-moremath/stats"
	"verif.local/harness/simkit"
)

const (
	fSentinel = -7777.25
	iSentinel = -777777
	spare     = 4
)

// tracked is one frozen input: cmp reports whether it is still bit-identical
// to its snapshot (including spare capacity).
type tracked struct {
	name string
	cmp  func() bool
}

type pool struct {
	fl      [][]float64 // unsorted float slices with ties (spare capacity filled with a sentinel)
	pos     [][]float64 // strictly positive slices
	wts     [][]float64 // positive weights, wts[i] parallel to fl[i] (may be nil)
	samples []stats.Sample
	ints    [][]int // tie vectors: ints[i] sums to len(fl[a])+len(fl[b]) for a pair
	adj     [][][]int
	igraphs []graph.IntGraph
	nodes   [][]int
	edges   [][]graph.Edge
	attrs   [][]graphout.DotAttr
	kde     []*stats.KDE
	hists   []stats.Histogram
	lin     []scale.Linear
	logs    []*scale.Log
	// derived, shared read-only result objects (built before the snapshot)
	loess   func(float64) float64
	poly    fit.PolynomialRegressionResult
	scc     *graphalg.SCCGraph
	sub     graph.Subgraph
	bi      graph.BiGraph
	idom    []int
	dom     *graphalg.DomTree
	simpl   graph.Weighted
	sx, sy  []float64      // a pair whose xs are already ascending (LOESS keeps such input without copying)
	sortedW stats.Sample   // a weighted sample of 64-130 points that is ascending with Sorted set
	xwts    []float64      // weights of extreme but legal magnitude, parallel to fl[2]
	huge    []float64      // optional: a slice beyond any plausible 'switch algorithm for large n' threshold (nil in most runs)
	big     graph.IntGraph // optional: a graph whose node ids cross the mark set's growth boundary (nil in most runs)
	invT    func(float64) float64
	crashD  *crashDist
	invS    func(float64) float64
	track   []tracked
	knobEL  int
	knobTL  int
}

func mkF(n int) []float64 {
	b := make([]float64, n+spare)
	for i := range b {
		b[i] = fSentinel
	}
	return b[:n]
}

func mkI(n int) []int {
	b := make([]int, n+spare)
	for i := range b {
		b[i] = iSentinel
	}
	return b[:n]
}

func (p *pool) trackF(name string, s []float64) {
	full := s[:cap(s)]
	snap := make([]uint64, len(full))
	for i, v := range full {
		snap[i] = math.Float64bits(v)
	}
	p.track = append(p.track, tracked{name, func() bool {
		for i, v := range full {
			if math.Float64bits(v) != snap[i] {
				return false
			}
		}
		return true
	}})
}

func (p *pool) trackI(name string, s []int) {
	full := s[:cap(s)]
	snap := append([]int(nil), full...)
	p.track = append(p.track, tracked{name, func() bool {
		for i, v := range full {
			if v != snap[i] {
				return false
			}
		}
		return true
	}})
}

// check returns the name of the first tracked input that changed, or "".
func (p *pool) check() string {
	for i := range p.track {
		if !p.track[i].cmp() {
			return p.track[i].name
		}
	}
	return ""
}

// genFloats draws an unsorted slice with ties.
func genFloats(g simkit.G, n int, positive bool) []float64 {
	xs := mkF(n)
	k := g.Range(2, 6) // number of distinct "tie" values mixed in
	vals := make([]float64, k)
	for i := range vals {
		if positive {
			vals[i] = float64(g.Range(1, 40)) / 4
		} else {
			vals[i] = float64(g.Range(-20, 40)) / 4
		}
	}
	for i := range xs {
		if g.Chance(1, 2) {
			xs[i] = vals[g.Intn(k)]
		} else if positive {
			xs[i] = 0.1 + 20*g.Unit()
		} else {
			xs[i] = 30*g.Unit() - 10
		}
	}
	// make sure it is visibly unsorted when possible
	if n >= 2 && xs[0] <= xs[n-1] {
		xs[0], xs[n-1] = xs[n-1]+1, xs[0]
	}
	return xs
}

func buildPool(g simkit.G) *pool {
	p := &pool{}
	// ---- float data ----
	nfl := 6
	lens := make([]int, nfl)
	for i := range lens {
		switch g.Pick(1, 3, 3) {
		case 0:
			lens[i] = g.Range(0, 2)
		case 1:
			lens[i] = g.Range(2, 9)
		default:
			lens[i] = g.Range(2, 14)
		}
	}
	lens[1] = lens[0] // a pair of equal length (PairedTTest, fits)
	if lens[2] < 4 {
		lens[2] = 4 + g.Intn(8)
	}
	lens[3] = lens[2]
	for i := 0; i < nfl; i++ {
		xs := genFloats(g, lens[i], false)
		p.fl = append(p.fl, xs)
		p.trackF(fmt.Sprintf("float slice fl[%d]", i), xs)
		var w []float64
		if i%2 == 0 {
			w = mkF(lens[i])
			for j := range w {
				w[j] = float64(g.Range(1, 12)) / 4
			}
			// some zero weights, never all (a zero weight ahead of a non-zero one
			// makes "compaction in place" visible)
			if len(w) >= 2 && g.Chance(1, 2) {
				for z := g.Range(1, len(w)/2); z > 0; z-- {
					w[g.Intn(len(w)-1)] = 0
				}
			}
			p.trackF(fmt.Sprintf("weights wts[%d]", i), w)
		}
		p.wts = append(p.wts, w)
	}
	for i := 0; i < 2; i++ {
		xs := genFloats(g, g.Range(3, 20), true)
		p.pos = append(p.pos, xs)
		p.trackF(fmt.Sprintf("positive slice pos[%d]", i), xs)
	}
	{
		// a larger, already-sorted weighted sample (the Sorted fast paths; sizes around 64 and 128)
		n := []int{64, 65, 100, 128, 130}[g.Intn(5)]
		xs, ws := mkF(n), mkF(n)
		v := -5.0
		for i := range xs {
			if !g.Chance(1, 4) {
				v += g.Unit()
			}
			xs[i] = v
			ws[i] = float64(g.Range(0, 9)) / 4
		}
		ws[n/2] = 1.25
		p.sortedW = stats.Sample{Xs: xs, Weights: ws, Sorted: true}
		p.trackF("sorted weighted sample Xs", xs)
		p.trackF("sorted weighted sample Weights", ws)
		// an already-sorted pair for the fits
		m := g.Range(5, 14)
		p.sx, p.sy = mkF(m), mkF(m)
		v2 := -3.0
		for i := range p.sx {
			v2 += 0.1 + g.Unit()
			p.sx[i] = v2
			p.sy[i] = 10*g.Unit() - 5
		}
		if g.Chance(1, 3) {
			// a missing observation, as callers encode it: NaN (not in the last position)
			p.sy[g.Intn(m-1)] = math.NaN()
		}
		p.trackF("sorted fit xs", p.sx)
		p.trackF("fit ys for sorted xs", p.sy)
		// weights of extreme magnitude for the fits
		p.xwts = mkF(lens[2])
		sc := []float64{1e120, 1e-120, 1e200, 1e-200}[g.Intn(4)]
		for i := range p.xwts {
			p.xwts[i] = sc * float64(g.Range(1, 9))
		}
		p.trackF("extreme-magnitude weights", p.xwts)
	}
	if g.Chance(1, 16) {
		// beyond plausible "go parallel / switch algorithm" thresholds: 2^14, 2^15, 2^16
		n := []int{16400, 16400, 33000, 33000, 66000, 66000, 132000, 263000}[g.Intn(8)] + g.Intn(4000)
		p.huge = mkF(n)
		for i := range p.huge {
			p.huge[i] = 1e3*g.Unit() - 300 + 1e-7*float64(i%97)
		}
		p.huge[0], p.huge[n-1] = 777, -777
		p.trackF("huge float slice", p.huge)
	}
	// ---- samples (share the slices above) ----
	for i := 0; i < nfl; i++ {
		p.samples = append(p.samples, stats.Sample{Xs: p.fl[i]})
	}
	p.samples = append(p.samples, stats.Sample{Xs: p.fl[0], Weights: p.wts[0]}, stats.Sample{Xs: p.fl[2], Weights: p.wts[2]},
		stats.Sample{Xs: p.pos[0]}, stats.Sample{Xs: p.pos[1]}, p.sortedW, stats.Sample{Xs: p.sortedW.Xs, Sorted: true}, stats.Sample{Xs: p.sx, Sorted: true})
	// ---- tie vectors for UDist ----
	for i := 0; i < 3; i++ {
		n1, n2 := g.Range(1, 7), g.Range(1, 7)
		var t []int
		left := n1 + n2
		for left > 0 {
			k := 1 + g.Intn(minInt(left, 3))
			t = append(t, k)
			left -= k
		}
		ti := mkI(len(t))
		copy(ti, t)
		p.ints = append(p.ints, ti)
		p.trackI(fmt.Sprintf("tie vector ints[%d]", i), ti)
		_ = n2
	}
	// ---- graphs ----
	for gi := 0; gi < 3; gi++ {
		n := g.Range(2, 14)
		adj := make([][]int, n)
		for u := 0; u < n; u++ {
			k := g.Range(0, 3)
			row := mkI(0)
			for j := 0; j < k; j++ {
				row = append(row, g.Intn(n))
			}
			// keep every node reachable from node 0 (dominator algorithms)
			if u > 0 {
				from := g.Intn(u)
				adj[from] = append(adj[from], u)
			}
			adj[u] = row
		}
		// unsorted adjacency with duplicates where possible (Equal's sort path)
		for u := range adj {
			// re-home each row into sentinel-padded storage
			row := mkI(len(adj[u]))
			copy(row, adj[u])
			adj[u] = row
			p.trackI(fmt.Sprintf("adjacency list graph[%d][%d]", gi, u), row)
		}
		p.adj = append(p.adj, adj)
		p.igraphs = append(p.igraphs, graph.IntGraph(adj))
		// node and edge lists for subgraphs
		perm := g.Perm(n)
		k := g.Range(1, n)
		nodes := mkI(k)
		copy(nodes, perm[:k])
		p.nodes = append(p.nodes, nodes)
		p.trackI(fmt.Sprintf("node list nodes[%d]", gi), nodes)
		in := map[int]bool{}
		for _, u := range nodes {
			in[u] = true
		}
		eb := make([]graph.Edge, 0, 8)
		for _, u := range nodes {
			for e, v := range adj[u] {
				// mostly edges whose both ends are kept; now and then a dangling one (its
				// target is not among the nodes): what the library makes of it is its
				// business here, but it must not write to the caller's list
				if (in[v] || g.Chance(1, 4)) && g.Chance(1, 2) && len(eb) < 8 {
					eb = append(eb, graph.Edge{Node: u, Edge: e})
				}
			}
		}
		// spare capacity with a sentinel edge
		full := eb[:cap(eb)]
		for i := len(eb); i < len(full); i++ {
			full[i] = graph.Edge{Node: iSentinel, Edge: iSentinel}
		}
		p.edges = append(p.edges, eb)
		snap := append([]graph.Edge(nil), full...)
		name := fmt.Sprintf("edge list edges[%d]", gi)
		p.track = append(p.track, tracked{name, func() bool {
			for i := range full {
				if full[i] != snap[i] {
					return false
				}
			}
			return true
		}})
	}
	// ---- optionally, a big graph: ids beyond 1024 so that traversals grow their visited set ----
	if g.Chance(1, 6) {
		n := 1030 + g.Intn(1200)
		flat := mkI(2 * n)
		rows := make([][]int, n)
		k := 0
		for u := 0; u < n; u++ {
			start := k
			if u+1 < n {
				flat[k] = u + 1
				k++
			}
			if u%3 == 0 && 2*u+1 < n {
				flat[k] = 2*u + 1
				k++
			}
			rows[u] = flat[start:k:k]
		}
		p.big = graph.IntGraph(rows)
		p.trackI("big graph adjacency storage", flat)
	}
	// ---- dot attribute lists with spare capacity ----
	for i := 0; i < 3; i++ {
		n := g.Range(0, 2)
		full := make([]graphout.DotAttr, n+2)
		for j := range full {
			full[j] = graphout.DotAttr{Name: "sentinel", Val: iSentinel}
		}
		for j := 0; j < n; j++ {
			full[j] = graphout.DotAttr{Name: []string{"color", "shape", "w"}[g.Intn(3)], Val: []interface{}{"a|b", 3, 1.5, graphout.DotLiteral("red")}[g.Intn(4)]}
		}
		al := full[:n]
		p.attrs = append(p.attrs, al)
		snap := append([]graphout.DotAttr(nil), full...)
		name := fmt.Sprintf("DotAttr list attrs[%d]", i)
		p.track = append(p.track, tracked{name, func() bool {
			for i := range full {
				if full[i] != snap[i] {
					return false
				}
			}
			return true
		}})
	}
	// ---- KDEs with a preset bandwidth ----
	for i := 0; i < 2; i++ {
		k := &stats.KDE{Sample: p.samples[2+i], Kernel: stats.KDEKernel(g.Intn(2)), Bandwidth: 0.5 + g.Unit()}
		if i == 1 {
			k.Sample = p.samples[7] // weighted
			switch g.Intn(4) {
			case 0:
				k.BoundaryMin, k.BoundaryMax = -10.5, math.Inf(1)
			case 1:
				k.BoundaryMin, k.BoundaryMax = math.Inf(-1), 31
			case 2:
				k.BoundaryMin, k.BoundaryMax = -12, 33 // doubly bounded: the reflection series
			}
		}
		p.kde = append(p.kde, k)
		kk, snap := k, *k
		p.track = append(p.track, tracked{fmt.Sprintf("KDE kde[%d] fields", i), func() bool {
			return kk.Kernel == snap.Kernel && math.Float64bits(kk.Bandwidth) == math.Float64bits(snap.Bandwidth) &&
				kk.BoundaryMethod == snap.BoundaryMethod && kk.BoundaryMin == snap.BoundaryMin && kk.BoundaryMax == snap.BoundaryMax &&
				sameSlice(kk.Sample.Xs, snap.Sample.Xs) && sameSlice(kk.Sample.Weights, snap.Sample.Weights) && kk.Sample.Sorted == snap.Sample.Sorted
		}})
	}
	// ---- histograms ----
	lh := stats.NewLinearHist(-10, 20, g.Range(2, 10))
	gh := stats.NewLogHist(g.Range(2, 10), float64(g.Range(1, 3)), 50)
	for _, x := range p.fl[2] {
		lh.Add(x)
	}
	for _, x := range p.pos[0] {
		gh.Add(x)
	}
	p.hists = []stats.Histogram{lh, gh}
	for i, h := range p.hists {
		h := h
		u, c, o := h.Counts()
		snapC := append([]uint(nil), c...)
		p.track = append(p.track, tracked{fmt.Sprintf("histogram hists[%d] counters", i), func() bool {
			u2, c2, o2 := h.Counts()
			if u2 != u || o2 != o || len(c2) != len(snapC) {
				return false
			}
			for j := range c2 {
				if c2[j] != snapC[j] {
					return false
				}
			}
			return true
		}})
	}
	// ---- scales ----
	p.lin = []scale.Linear{{Min: -3.5, Max: float64(g.Range(5, 200)), Base: []int{0, 10, 2}[g.Intn(3)]}, {Min: float64(g.Range(1, 9)), Max: -2, Clamp: true}}
	lg, _ := scale.NewLog(0.5+g.Unit(), float64(g.Range(20, 5000)), []int{10, 2}[g.Intn(2)])
	lg2, _ := scale.NewLog(-float64(g.Range(50, 500)), -0.25, 10)
	p.logs = []*scale.Log{&lg, &lg2}
	for i, l := range p.logs {
		l, snap := l, *l
		p.track = append(p.track, tracked{fmt.Sprintf("scale.Log logs[%d] fields", i), func() bool { return *l == snap }})
	}
	// ---- knobs ----
	p.knobEL = []int{50, 0, 6, 200, 1, -1, 1 << 30}[g.Intn(7)]
	p.knobTL = []int{25, 0, 8, 12, 1, -1}[g.Intn(6)]

	// ---- derived shared result objects (sequential, before the snapshot is relied on) ----
	p.loess = fit.LOESS(p.fl[2], p.fl[3], 1+g.Intn(2), 0.75)
	p.poly = fit.PolynomialRegression(p.fl[2], p.fl[3], nil, 2)
	p.scc = graphalg.SCC(p.igraphs[0], graphalg.SCCEdges)
	p.sub = graph.SubgraphRemove(p.igraphs[1], p.nodes[1][:1], nil)
	p.bi = graph.MakeBiGraph(p.igraphs[2])
	p.idom = mkI(len(p.adj[2]))
	copy(p.idom, graphalg.IDom(graph.MakeBiGraph(p.igraphs[2]), 0)) // not through p.bi: shared objects stay cold until the concurrent phase
	p.trackI("idom vector", p.idom)
	p.dom = graphalg.Dom(p.idom)
	p.simpl = graphalg.SimplifyMulti(p.igraphs[0])
	p.invT = stats.InvCDF(stats.TDist{V: float64(g.Range(2, 9))})
	p.crashD = &crashDist{simDist: simDist{lo: -3, hi: 6, knee: 1.5}}
	p.invS = stats.InvCDF(p.crashD)
	return p
}

func sameSlice(a, b []float64) bool {
	if len(a) != len(b) || cap(a) != cap(b) {
		return false
	}
	if len(a) == 0 {
		return true
	}
	return &a[0] == &b[0]
}

func minInt(a, b int) int {
	if a < b {
		return a
	}
	return b
}
