// Package simenv holds the simulator-owned stubs behind the library's seams:
// io.Writer with a fault plan, scripted rand.Source, graphs over simulator-
// owned adjacency, and callback wrappers that can crash on the k-th call
// (DESIGN.md §3.6). Everything else is real code.
package simenv

import (
	"errors"
	"fmt"
)

// ---- SimWriter ----

var ErrInjected = errors.New("simenv: injected write error")

// SimWriter is an io.Writer with a fault plan: the FailAt-th call (0-based)
// accepts only Short bytes (Short < len(p)) and returns ErrInjected; every
// later call also fails. FailAt < 0 means no fault.
type SimWriter struct {
	FailAt int
	Short  int
	// Transient: only the FailAt-th call fails; later calls succeed (a writer
	// that recovers). A correct caller has stopped writing by then.
	Transient bool
	Calls     int
	Buf       []byte
	Fired     bool
	Lens      []int // length of every write requested
}

func (w *SimWriter) Write(p []byte) (int, error) {
	k := w.Calls
	w.Calls++
	w.Lens = append(w.Lens, len(p))
	if w.FailAt >= 0 && (k == w.FailAt || (k > w.FailAt && !w.Transient)) {
		n := 0
		if k == w.FailAt {
			n = w.Short
			if n > len(p) {
				n = len(p)
			}
			if n == len(p) && n > 0 {
				n = len(p) - 1
			}
		}
		w.Fired = true
		w.Buf = append(w.Buf, p[:n]...)
		return n, ErrInjected
	}
	w.Buf = append(w.Buf, p...)
	return len(p), nil
}

// ---- SimGraph ----

// RangeError is the panic value raised when the library asks a SimGraph about
// a node outside [0,NumNodes).
type RangeError struct {
	Method string
	Node   int
	N      int
}

func (e *RangeError) Error() string {
	return fmt.Sprintf("library called %s(%d) on a graph with %d nodes", e.Method, e.Node, e.N)
}

// SimGraph is a graph.Graph / graph.Weighted over simulator-owned adjacency.
// It counts calls and can crash (panic with *Crash) on the k-th Out call.
type SimGraph struct {
	Adj      [][]int
	W        [][]float64 // optional weights, parallel to Adj
	OutCalls int
	CrashAt  int // crash on the CrashAt-th Out call (1-based); 0 = never
}

// Crash is the panic value of an injected callback crash.
type Crash struct{ Where string }

func (c *Crash) Error() string { return "simenv: injected callback crash in " + c.Where }

func (g *SimGraph) NumNodes() int { return len(g.Adj) }

func (g *SimGraph) Out(i int) []int {
	if i < 0 || i >= len(g.Adj) {
		panic(&RangeError{"Out", i, len(g.Adj)})
	}
	g.OutCalls++
	if g.CrashAt > 0 && g.OutCalls == g.CrashAt {
		panic(&Crash{"Graph.Out"})
	}
	return g.Adj[i]
}

// SimWGraph adds OutWeight.
type SimWGraph struct{ SimGraph }

func (g *SimWGraph) OutWeight(i, e int) float64 {
	if i < 0 || i >= len(g.Adj) || e < 0 || e >= len(g.Adj[i]) {
		panic(&RangeError{"OutWeight", i, len(g.Adj)})
	}
	return g.W[i][e]
}

// SimBiGraph adds In (the transpose, supplied by the simulator).
type SimBiGraph struct {
	SimGraph
	Preds [][]int
}

func (g *SimBiGraph) In(i int) []int {
	if i < 0 || i >= len(g.Preds) {
		panic(&RangeError{"In", i, len(g.Preds)})
	}
	return g.Preds[i]
}

// ---- SimSource ----

// SimSource is a scripted rand.Source64: it returns Script values first (so the
// simulator can emit values a real PRNG practically never does, e.g. an Int63
// whose top 53 bits are zero so that Float64()==0), then falls back to a
// splitmix64 sequence from Seed.
type SimSource struct {
	Script []uint64
	Pos    int
	State  uint64
	Calls  int
}

func (s *SimSource) Seed(seed int64) { s.State = uint64(seed) }

func (s *SimSource) Uint64() uint64 {
	s.Calls++
	if s.Pos < len(s.Script) {
		v := s.Script[s.Pos]
		s.Pos++
		return v
	}
	s.State += 0x9e3779b97f4a7c15
	z := s.State
	z = (z ^ (z >> 30)) * 0xbf58476d1ce4e5b9
	z = (z ^ (z >> 27)) * 0x94d049bb133111eb
	return z ^ (z >> 31)
}

func (s *SimSource) Int63() int64 { return int64(s.Uint64() >> 1) }
