package simkit

import (
	"sort"

	"verif.local/simhook"
)

// Violation is what an oracle reports. Oracle id + operation kind is the
// violation class used by the shrinker and the known-findings matcher.
type Violation struct {
	Property string `json:"property"`
	Oracle   string `json:"oracle_id"`
	Op       string `json:"op"`
	Seq      uint64 `json:"seq"`
	Message  string `json:"message"`
	// Sig is a short, value-free description of the failing shape (for
	// example "combine:left-empty"), matched by open known findings.
	Sig string `json:"signature,omitempty"`
}

func (v *Violation) Class() string { return v.Oracle + "@" + v.Op }

// RunOpt tells a property how to execute a run.
type RunOpt struct {
	Tier        string // "quick" or "thorough"
	KeepHistory bool   // record the human-readable history
	Counting    bool   // update probes / fault counters (off while shrinking)
	RunIndex    uint64
	FirstInProc bool // first run of this worker process
}

// RunResult is the outcome of one simulated run.
type RunResult struct {
	Violation  *Violation       `json:"violation,omitempty"`
	Hash       uint64           `json:"hash"`
	Nontrivial bool             `json:"nontrivial"`
	Steps      uint64           `json:"steps"`
	Switches   uint64           `json:"switches"`
	Policy     string           `json:"policy,omitempty"`
	History    []string         `json:"history,omitempty"`
	SchedTrace []simhook.Switch `json:"-"`
	FaultTrace []string         `json:"fault_trace,omitempty"`
	BudgetHit  bool             `json:"budget_hit,omitempty"`
	Extra      map[string]any   `json:"extra,omitempty"`
}

// Property is one claimed property's simulation.
type Property interface {
	ID() string
	// Run executes one simulated run driven entirely by t.
	Run(t *simhook.Tape, opt RunOpt) *RunResult
	// Meta describes the check for the evidence file.
	Meta() Meta
}

type Meta struct {
	Rule           string   // how cases are generated and what makes one distinct and non-trivial
	Real           []string // components that ran real code
	Stub           []string // components that were simulator stubs
	Assumptions    []string
	FaultKinds     []string // fault kinds this property's simulation can inject
	NotApplicable  []string // classic fault kinds with no target here
	RunsQuick      int
	RunsThorough   int
	RaceRunsQuick  int
	RaceRunsThorou int
}

// Counters is a named counter set with deterministic (sorted) output.
type Counters struct{ m map[string]int64 }

func NewCounters() *Counters { return &Counters{m: map[string]int64{}} }

func (c *Counters) Add(name string, n int64) { c.m[name] += n }
func (c *Counters) Inc(name string)          { c.m[name]++ }
func (c *Counters) Touch(name string)        { c.m[name] += 0 }
func (c *Counters) Get(name string) int64    { return c.m[name] }

func (c *Counters) Names() []string {
	names := make([]string, 0, len(c.m))
	for k := range c.m { // order fixed by the sort below
		names = append(names, k)
	}
	sort.Strings(names)
	return names
}

func (c *Counters) Map() map[string]int64 {
	out := make(map[string]int64, len(c.m))
	for _, k := range c.Names() {
		out[k] = c.m[k]
	}
	return out
}

// Stats is the per-process accumulation a property updates while Counting.
type Stats struct {
	Probes   *Counters
	Faults   *Counters
	Policies *Counters
	Ops      *Counters
	// MaxErrOverBound is the largest observed error / allowed bound over all
	// tolerance-based comparisons (headroom of the non-exact oracles).
	MaxErrOverBound float64
	MaxErrWhere     string
}

func NewStats() *Stats {
	return &Stats{Probes: NewCounters(), Faults: NewCounters(), Policies: NewCounters(), Ops: NewCounters()}
}

func (s *Stats) Ratio(r float64, where string) {
	if r != r {
		return // 0/0 or Inf/Inf (an exact value beyond the double range against an infinite bound): nothing measurable
	}
	if r > 1e30 {
		r = 1e30 // keep the evidence encodable
	}
	if r > s.MaxErrOverBound {
		s.MaxErrOverBound = r
		s.MaxErrWhere = where
	}
}

// Hasher is FNV-1a over words.
type Hasher uint64

func NewHasher() Hasher { return 0xcbf29ce484222325 }
func (h *Hasher) Word(x uint64) {
	*h = Hasher((uint64(*h) ^ x) * 0x100000001b3)
}
func (h *Hasher) Str(s string) {
	for i := 0; i < len(s); i++ {
		h.Word(uint64(s[i]))
	}
	h.Word(0xff)
}
