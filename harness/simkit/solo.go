package simkit

import (
	"fmt"
	"runtime/debug"

	"verif.local/simhook"
)

// Try runs f and returns the recovered panic value (nil if none). A
// *simhook.Abort (budget exhausted, deadlock) is re-raised by the caller where
// appropriate; use IsAbort to tell.
func Try(f func()) (pv any, stack string) {
	defer func() {
		if r := recover(); r != nil {
			pv = r
			stack = string(debug.Stack())
		}
	}()
	f()
	return nil, ""
}

func IsAbort(pv any) (*simhook.Abort, bool) {
	a, ok := pv.(*simhook.Abort)
	return a, ok
}

func PanicString(pv any) string {
	switch v := pv.(type) {
	case error:
		return v.Error()
	case string:
		return v
	case fmt.Stringer:
		return v.String()
	}
	return fmt.Sprintf("%v", pv)
}

// RunSolo runs body as the single task of a simulation (policy seq): the
// single-owner properties use it for step budgets (bounded liveness), site
// coverage and a uniform replay pipeline. A panic escaping body that is not
// an Abort is re-raised on the caller's goroutine.
func RunSolo(t *simhook.Tape, runBudget, opBudget uint64, canonicalMaps bool, body func()) (res simhook.Result, abort *simhook.Abort) {
	var escaped any
	var stack string
	res = simhook.Run(simhook.Config{
		Tape:          t,
		Policy:        simhook.Policy{Kind: simhook.PSeq},
		RunBudget:     runBudget,
		OpBudget:      opBudget,
		CanonicalMaps: canonicalMaps,
	}, []func(int){func(int) {
		pv, st := Try(body)
		if pv != nil {
			if a, ok := IsAbort(pv); ok {
				abort = a
			} else {
				escaped, stack = pv, st
			}
		}
	}})
	if escaped != nil {
		panic(fmt.Sprintf("harness bug: panic escaped run body: %v\n%s", escaped, stack))
	}
	return res, abort
}

// AbortIsVerdict tells whether an Abort is a finding. Exhausting the step budget
// of a whole RUN only means that the drawn workload was long (many heavy
// operations): the run is truncated and counted, nothing is reported.
// Exhausting the budget of a single OPERATION, or a deadlock, is the bounded
// liveness violation "no progress within N steps".
func AbortIsVerdict(a *simhook.Abort) bool {
	if a == nil {
		return false
	}
	switch a.Reason {
	case "run step budget exhausted", "run aborted":
		return false
	}
	return true
}
