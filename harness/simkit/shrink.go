package simkit

import (
	"time"

	"verif.local/simhook"
)

type Tape = [simhook.NStreams][]simhook.D

// ShrinkStats reports what minimisation did.
type ShrinkStats struct {
	Executions int    `json:"executions"`
	Accepted   int    `json:"accepted"`
	Before     [4]int `json:"draws_before"`
	After      [4]int `json:"draws_after"`
	NeedsSched bool   `json:"needs_interleaving"` // false: violation survives with the schedule stream zeroed
	WallMS     int64  `json:"wall_ms"`
}

// Shrink minimises rec while test keeps reporting the same violation class.
// test must be a pure function of the tape (in-process replay, or a fresh
// subprocess for race findings).
func Shrink(rec Tape, test func(Tape) bool, maxExec int, maxWall time.Duration) (Tape, ShrinkStats) {
	var st ShrinkStats
	start := time.Now()
	for i := range rec {
		st.Before[i] = len(rec[i])
	}
	cur := cloneTape(rec)
	try := func(c Tape) bool {
		if st.Executions >= maxExec || time.Since(start) > maxWall {
			return false
		}
		st.Executions++
		if test(c) {
			st.Accepted++
			cur = c
			return true
		}
		return false
	}
	exhausted := func() bool { return st.Executions >= maxExec || time.Since(start) > maxWall }

	// 1. drop whole streams: schedule first (does it need an interleaving at all?)
	st.NeedsSched = true
	for _, s := range []int{simhook.SSched, simhook.SMap, simhook.SFault} {
		if len(cur[s]) == 0 {
			if s == simhook.SSched {
				st.NeedsSched = false
			}
			continue
		}
		c := cloneTape(cur)
		c[s] = nil
		if try(c) && s == simhook.SSched {
			st.NeedsSched = false
		}
	}
	order := []int{simhook.SWork, simhook.SFault, simhook.SSched, simhook.SMap}
	for round := 0; round < 6 && !exhausted(); round++ {
		progress := false
		// 2. delete chunks (from the end: a deleted tail reads as zeros)
		for _, s := range order {
			for k := len(cur[s]) / 2; k >= 1 && !exhausted(); k /= 2 {
				for i := len(cur[s]) - k; i >= 0 && !exhausted(); i -= k {
					if i+k > len(cur[s]) {
						continue
					}
					c := cloneTape(cur)
					c[s] = append(append([]simhook.D(nil), cur[s][:i]...), cur[s][i+k:]...)
					if try(c) {
						progress = true
					}
				}
			}
		}
		// 3. zero spans
		for _, s := range order {
			for k := len(cur[s]) / 2; k >= 2 && !exhausted(); k /= 2 {
				for i := 0; i+k <= len(cur[s]) && !exhausted(); i += k {
					allZero := true
					for _, d := range cur[s][i : i+k] {
						if d.V != 0 {
							allZero = false
							break
						}
					}
					if allZero {
						continue
					}
					c := cloneTape(cur)
					for j := i; j < i+k; j++ {
						c[s][j].V = 0
					}
					if try(c) {
						progress = true
					}
				}
			}
		}
		// 4. shrink single values: 0, then halve, then decrement
		for _, s := range order {
			for i := 0; i < len(cur[s]) && !exhausted(); i++ {
				v := cur[s][i].V
				if v == 0 {
					continue
				}
				for _, nv := range []uint64{0, v / 2, v - 1} {
					if nv >= cur[s][i].V {
						continue
					}
					c := cloneTape(cur)
					c[s][i].V = nv
					if try(c) {
						progress = true
						if nv == 0 {
							break
						}
					}
				}
			}
		}
		if !progress {
			break
		}
	}
	for i := range cur {
		st.After[i] = len(cur[i])
	}
	st.WallMS = time.Since(start).Milliseconds()
	return cur, st
}

func cloneTape(t Tape) Tape {
	var c Tape
	for i := range t {
		c[i] = append([]simhook.D(nil), t[i]...)
	}
	return c
}
