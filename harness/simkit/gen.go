// Package simkit holds what all property harnesses share: draw helpers over
// the tape, the violation/result types, counters, the tape shrinker and the
// simulated environment stubs.
package simkit

import (
	"math"

	"verif.local/simhook"
)

// G draws from one stream of the tape.
type G struct {
	T  *simhook.Tape
	St int
}

func Work(t *simhook.Tape) G  { return G{t, simhook.SWork} }
func Fault(t *simhook.Tape) G { return G{t, simhook.SFault} }

// Intn returns a value in [0,n); 0 is the simplest choice.
func (g G) Intn(n int) int {
	if n <= 1 {
		return 0
	}
	return int(g.T.Draw(g.St, uint64(n)))
}

// Range returns a value in [lo,hi].
func (g G) Range(lo, hi int) int {
	if hi <= lo {
		return lo
	}
	return lo + g.Intn(hi-lo+1)
}

// BoundarySize draws a size in [lo,hi], biased towards the sizes at which
// implementations change algorithm or storage: 0,1,2,3, and 2^k-1, 2^k, 2^k+1.
func (g G) BoundarySize(lo, hi int) int {
	if hi <= lo {
		return lo
	}
	if g.Chance(1, 3) {
		var c []int
		for _, b := range []int{0, 1, 2, 3, 4, 5, 7, 8, 9, 15, 16, 17, 31, 32, 33, 63, 64, 65, 127, 128, 129, 199, 200, 255, 256, 257} {
			if b >= lo && b <= hi {
				c = append(c, b)
			}
		}
		if len(c) > 0 {
			return c[g.Intn(len(c))]
		}
	}
	return g.Range(lo, hi)
}

// Chance is true with probability num/den; false is the simplest choice.
func (g G) Chance(num, den int) bool {
	return g.Intn(den) >= den-num
}

// Unit returns a float in [0,1) on the 2^-53 grid.
func (g G) Unit() float64 {
	return float64(g.T.Draw(g.St, 1<<53)) / (1 << 53)
}

// Sym returns a float in (-1,1).
func (g G) Sym() float64 {
	return g.Unit()*2 - 1 + 1.0/(1<<53)
}

// Uniform returns a float in [lo,hi).
func (g G) Uniform(lo, hi float64) float64 {
	return lo + (hi-lo)*g.Unit()
}

// Pick returns an index drawn with the given integer weights.
func (g G) Pick(weights ...int) int {
	tot := 0
	for _, w := range weights {
		tot += w
	}
	x := g.Intn(tot)
	for i, w := range weights {
		if x < w {
			return i
		}
		x -= w
	}
	return len(weights) - 1
}

// Perm returns a permutation of n elements; all-zero draws give the identity.
func (g G) Perm(n int) []int {
	p := make([]int, n)
	for i := range p {
		p[i] = i
	}
	for i := n - 1; i > 0; i-- {
		j := i - g.Intn(i+1)
		p[i], p[j] = p[j], p[i]
	}
	return p
}

// Ulps moves x by k units in the last place.
func Ulps(x float64, k int) float64 {
	for ; k > 0; k-- {
		x = math.Nextafter(x, math.Inf(1))
	}
	for ; k < 0; k++ {
		x = math.Nextafter(x, math.Inf(-1))
	}
	return x
}
