// Package c14 simulates a producer feeding a LinearHist / LogHist (or, for the
// quantile code, a stub Histogram behind the stats.Histogram seam): after every
// Add a conservation invariant and the placement dictated by the stated edges
// are checked against an exact reference binning model; quantile queries are
// checked at every reached state (DESIGN.md §4.3).
package c14

import (
	"fmt"
	"math"
	"math/big"
	"sort"

	"github.com/aclements/go-moremath/stats"
	"verif.local/harness/refmodel"
	"verif.local/harness/simkit"
	"verif.local/simhook"
)

type Prop struct{ St *simkit.Stats }

func New() *Prop                     { return &Prop{St: simkit.NewStats()} }
func (p *Prop) ID() string           { return "C14" }
func (p *Prop) Stats() *simkit.Stats { return p.St }

func (p *Prop) Meta() simkit.Meta {
	return simkit.Meta{
		Rule: "one run = one drawn histogram (LinearHist: 1-50 bins, min<max with offsets up to 1e5 widths, widths 1e-3..1e6; LogHist: base 2-10, 1-4 bins per power, 1-50 bins; or a stub Histogram with drawn counters behind the stats.Histogram interface) and a drawn history of up to 500 events: Add(x) with x far below / within one bin below the first edge / exactly on an edge / one ulp either side / interior / last edge / above, interleaved with Counts, BinToValue(t), HistogramQuantile(q) for q in {0,1,k/total,k/total±tiny,uniform} and HistogramIQR. distinct = distinct hashes of (shape class, event kinds with value classes); non-trivial = at least one Add in an edge neighbourhood or a quantile query on a non-empty histogram",
		Real: []string{"stats.LinearHist", "stats.LogHist", "stats.HistogramQuantile", "stats.HistogramIQR"},
		Stub: []string{"producer", "stub Histogram (drawn counters) for a quarter of the runs"},
		Assumptions: []string{
			"NewLogHist with max<=1 and NaN samples are not generated (+Inf and -Inf are: over and under); any finite sample is (up to 1e40 ranges outside a LinearHist, the whole positive double range and x<=0 for a LogHist): since fix 4d831fb the bin index is clamped before the float-to-int conversion, so nothing platform-defined is left",
			"bins are at least 1e6 ulps of the range end points wide",
			"a value within 16*eps*(|min|+|max|+|x|) of an edge (LogHist: 16*eps*(1+|ln x|) in log space) may fall on either side, as the statement allows",
			"the floor(q*total)-th smallest sample is counted from 1 (the 1st smallest is the minimum, q=1 names the maximum - the statement expects q=1 to work); rank 0 names no sample and nothing is demanded there beyond not panicking; the in-bin interpolation rank is accepted within +-1. (The first version accepted a 0-based reading as well, which made q=1 with overflow samples vacuous; an independent breaking change, seeded C14-t3, showed that.)",
			"edges are those documented by the constructors: min+i*(max-min)/nbins and b^(i/m)",
		},
		FaultKinds:    []string{"stub_histogram_counters"},
		NotApplicable: []string{"message loss/duplication/reordering", "partitions", "crash-restart with durable state", "torn/lost disk writes", "disk full", "clock skew/jumps", "allocation or syscall failure"},
		RunsQuick:     400000, RunsThorough: 5000000,
	}
}

// shape is the reference model of the histogram's geometry.
type shape struct {
	huge     bool // linear range near the top of the double range
	log      bool
	nbins    int
	min, max float64 // linear
	b        int     // log
	m        float64 // log
	lnb      *big.Float
}

// edgeLin returns the exact edge i as a rational.
func (s *shape) edgeLin(i int) *big.Rat {
	mn := new(big.Rat).SetFloat64(s.min)
	mx := new(big.Rat).SetFloat64(s.max)
	w := new(big.Rat).Sub(mx, mn)
	w.Mul(w, big.NewRat(int64(i), int64(s.nbins)))
	return w.Add(w, mn)
}

// edge returns edge t (possibly fractional) as a float64 from the definition.
func (s *shape) edge(t float64) float64 {
	if s.log {
		// b^(t/m) at 400 bits
		e := refmodel.Exp(new(big.Float).SetPrec(refmodel.Prec).Mul(refmodel.BF(t/s.m), s.lnb))
		return refmodel.F(e)
	}
	return s.min + (s.max-s.min)*(t/float64(s.nbins)) // this order does not overflow for ranges near the top of the double range
}

// place returns the exact bin index of x (may be <0 or >=nbins) and whether
// the neighbouring bin below / above is also acceptable because x is within
// rounding distance of the shared edge.
func (s *shape) place(x float64) (idx int, lowerOK, upperOK bool) {
	if !s.log {
		mn := new(big.Rat).SetFloat64(s.min)
		mx := new(big.Rat).SetFloat64(s.max)
		rx := new(big.Rat).SetFloat64(x)
		t := new(big.Rat).Sub(rx, mn)
		t.Mul(t, big.NewRat(int64(s.nbins), 1))
		t.Quo(t, new(big.Rat).Sub(mx, mn))
		// floor
		fl := new(big.Int).Div(t.Num(), t.Denom()) // Euclidean division: floor for positive denominator
		if !fl.IsInt64() {
			if fl.Sign() < 0 {
				return math.MinInt32, false, false
			}
			return math.MaxInt32, false, false
		}
		i64 := fl.Int64()
		if i64 < -(1<<30) || i64 > 1<<30 {
			if i64 < 0 {
				return math.MinInt32, false, false
			}
			return math.MaxInt32, false, false
		}
		idx = int(i64)
		// rounding distance of an edge E: the bin coordinate (x-min)*delta carries a
		// relative error of a few eps, i.e. a few eps*|E-min| in x units, plus the
		// representation of x and E themselves. An edge that coincides with min is
		// exact: a value 1e-12 below min=0 is NOT within rounding distance of it,
		// however large max is. (The first version used eps*max(|min|,|max|,|x|) for
		// every edge, which was needlessly lax at the first edge: seeded C14-y4.)
		eLo, eHi := s.edgeLin(idx), s.edgeLin(idx+1)
		tolAt := func(e *big.Rat) float64 {
			ef, _ := e.Float64()
			// (+ the underflow threshold: a value a few denormals away from the edge
			// gives a bin coordinate that rounds to zero)
			uf := 8 * math.SmallestNonzeroFloat64 * math.Max(1, (s.max-s.min)/float64(s.nbins))
			return 48*refmodel.Eps*math.Max(math.Abs(x), math.Max(math.Abs(ef), math.Abs(ef-s.min))) + uf
		}
		lo, _ := new(big.Rat).Sub(rx, eLo).Float64()
		hi, _ := new(big.Rat).Sub(eHi, rx).Float64()
		return idx, lo <= tolAt(eLo), hi <= tolAt(eHi)
	}
	// log: t = m*ln(x)/ln(b)
	lnx := math.Log(x)
	t := s.m * lnx / math.Log(float64(s.b))
	fr := t - math.Floor(t)
	if fr > 1e-9 && fr < 1-1e-9 {
		return int(math.Floor(t)), false, false
	}
	// close to an edge: decide exactly
	bl := refmodel.Ln(refmodel.BF(x))
	bt := new(big.Float).SetPrec(refmodel.Prec).Mul(refmodel.BF(s.m), bl)
	bt.Quo(bt, s.lnb)
	near := math.Round(t)
	d := new(big.Float).SetPrec(refmodel.Prec).Sub(bt, refmodel.BF(near))
	if d.Sign() >= 0 {
		idx = int(near)
	} else {
		idx = int(near) - 1
	}
	// distance to the edge `near` in ln-x space: |t - near| * ln(b)/m
	dist := math.Abs(refmodel.F(d)) * math.Log(float64(s.b)) / s.m
	tol := 16 * refmodel.Eps * (1 + math.Abs(lnx))
	if dist <= tol {
		if idx == int(near) {
			lowerOK = true
		} else {
			upperOK = true
		}
	}
	return idx, lowerOK, upperOK
}

// counter maps a bin index to a counter slot: 0 = under, 1..nbins = bins, nbins+1 = over.
func (s *shape) counter(idx int) int {
	if idx < 0 {
		return 0
	}
	if idx >= s.nbins {
		return s.nbins + 1
	}
	return idx + 1
}

// stubHist is a Histogram whose counters are drawn by the simulator.
type stubHist struct {
	under, over uint
	counts      []uint
	min, width  float64
	curved      bool // bins that are neither linear nor geometric: edges at min + width*bin^2
}

func (h *stubHist) Add(x float64)                {}
func (h *stubHist) Counts() (uint, []uint, uint) { return h.under, h.counts, h.over }
func (h *stubHist) BinToValue(bin float64) float64 {
	if h.curved {
		return h.min + h.width*bin*bin
	}
	return h.min + bin*h.width
}

type ctx struct {
	p       *Prop
	g       simkit.G
	opt     simkit.RunOpt
	h       stats.Histogram
	sh      *shape
	stub    bool
	adds    int
	hist    []string
	hash    simkit.Hasher
	viol    *simkit.Violation
	nontriv bool
	prev    []uint // under, bins..., over
}

func (c *ctx) logf(format string, a ...any) {
	if c.opt.KeepHistory {
		c.hist = append(c.hist, fmt.Sprintf(format, a...))
	}
}

func (c *ctx) probe(name string) {
	if c.opt.Counting {
		c.p.St.Probes.Inc(name)
	}
}

func (c *ctx) fail(oracle, op, sig, format string, a ...any) {
	if c.viol == nil {
		c.viol = &simkit.Violation{Property: "C14", Oracle: "C14/" + oracle, Op: op, Sig: sig, Seq: simhook.Seq(), Message: fmt.Sprintf(format, a...)}
	}
}

func (c *ctx) kind() string {
	if c.stub {
		return "Stub"
	}
	if c.sh.log {
		return "LogHist"
	}
	return "LinearHist"
}

func (c *ctx) try(op, sig string, f func()) bool {
	simhook.BeginOp()
	pv, _ := simkit.Try(f)
	if pv != nil {
		if a, ok := simkit.IsAbort(pv); ok {
			panic(a)
		}
		c.fail("panic", op, sig, "%s panicked: %s", op, simkit.PanicString(pv))
		return false
	}
	return true
}

func (c *ctx) snapshot() []uint {
	u, b, o := c.h.Counts()
	s := make([]uint, 0, len(b)+2)
	s = append(s, u)
	s = append(s, b...)
	return append(s, o)
}

var valueClasses = []string{"far-below", "just-below-first", "on-edge", "edge-1ulp", "edge+1ulp", "interior", "last-edge", "above", "non-positive", "infinite", "edge-tiny"}

func (c *ctx) genValue() (float64, int) {
	s := c.sh
	cls := c.g.Pick(1, 3, 3, 2, 2, 4, 1, 2)
	if c.g.Chance(1, 40) {
		// "well above / well below the range" taken to the limit
		return []float64{math.Inf(1), math.Inf(-1)}[c.g.Intn(2)], 9
	}
	if !s.log && !s.huge && c.g.Chance(1, 12) {
		// an edge minus/plus a tiny fraction (1e-3 .. 1e-30) of the bin width: far
		// more than rounding distance when the edge is exact (min itself), so the
		// side is decided; for other edges the per-edge tolerance applies
		i := c.g.Range(0, s.nbins)
		if c.g.Chance(1, 2) {
			i = 0
		}
		w := (s.max - s.min) / float64(s.nbins)
		d := w * math.Pow(10, -float64(c.g.Range(3, 30)))
		if c.g.Chance(1, 2) {
			d = -d
		}
		return s.edge(float64(i)) + d, 10
	}
	if s.log && c.g.Chance(1, 12) {
		// zero and negative samples are below the first bin (edge b^0 = 1) of a LogHist
		return []float64{0, -1, -0.5, -1e6, math.Copysign(0, -1)}[c.g.Intn(5)], 8
	}
	n := float64(s.nbins)
	var x float64
	switch cls {
	case 0:
		if s.log && c.g.Chance(1, 4) {
			x = math.Pow(10, -c.g.Uniform(1, 307)) // down to the smallest normal doubles
		} else if s.log {
			x = s.edge(-float64(c.g.Range(1, 20)) - c.g.Unit())
		} else if s.huge {
			x = s.edge(-n * c.g.Unit()) // at most one range below (further out overflows)
		} else {
			// from a few ranges below to astronomically far below (any finite value)
			x = s.edge(-n * (1 + c.g.Unit()*math.Pow(10, float64(c.g.Range(0, 40)))))
		}
	case 1:
		u := c.g.Unit()
		if u == 0 {
			u = 0.5
		}
		x = s.edge(-u)
	case 2:
		x = c.h.BinToValue(float64(c.g.Range(0, s.nbins)))
	case 3:
		x = simkit.Ulps(c.h.BinToValue(float64(c.g.Range(0, s.nbins))), -1)
	case 4:
		x = simkit.Ulps(c.h.BinToValue(float64(c.g.Range(0, s.nbins))), 1)
	case 5:
		x = s.edge(float64(c.g.Intn(s.nbins)) + c.g.Unit())
	case 6:
		x = c.h.BinToValue(n)
	case 7:
		if s.log && c.g.Chance(1, 4) {
			x = math.Pow(10, c.g.Uniform(100, 308))
		} else if s.log {
			x = s.edge(n + float64(c.g.Range(0, 20))*c.g.Unit())
		} else if s.huge {
			x = s.edge(n * (1 + c.g.Unit()))
		} else {
			x = s.edge(n * (1 + c.g.Unit()*math.Pow(10, float64(c.g.Range(0, 40)))))
		}
	}
	return x, cls
}

func (c *ctx) add() {
	x, cls := c.genValue()
	if math.IsNaN(x) || (math.IsInf(x, 0) && cls != 9) || (c.sh.log && !(x > 0) && cls != 8 && cls != 9) {
		return
	}
	if c.sh.huge {
		c.probe("huge_range_linear_hist")
	}
	c.logf("Add(%v) [%s]", x, valueClasses[cls])
	c.hash.Str("A" + valueClasses[cls])
	if cls >= 1 && cls <= 4 || cls == 6 || cls == 10 {
		c.nontriv = true
	}
	if cls == 1 {
		c.probe("value_within_one_bin_below_first_edge")
	}
	if cls == 2 || cls == 6 {
		c.probe("value_exactly_on_edge")
	}
	if c.sh.log && x < 1 {
		c.probe("loghist_value_in_0_1")
	}
	if !c.try("Add", valueClasses[cls], func() { c.h.Add(x) }) {
		return
	}
	c.adds++
	cur := c.snapshot()
	// (i) conservation
	moved := -1
	for i := range cur {
		switch {
		case i >= len(c.prev):
			c.fail("conservation", "Add", valueClasses[cls], "%s: number of bins changed from %d to %d", c.kind(), len(c.prev)-2, len(cur)-2)
			return
		case cur[i] == c.prev[i]:
		case cur[i] == c.prev[i]+1 && moved < 0:
			moved = i
		default:
			c.fail("conservation", "Add", valueClasses[cls], "%s Add(%v): counter %s went from %d to %d (moved so far: %d)", c.kind(), x, c.slotName(i), c.prev[i], cur[i], moved)
			return
		}
	}
	if moved < 0 {
		c.fail("conservation", "Add", valueClasses[cls], "%s Add(%v): no counter was incremented", c.kind(), x)
		return
	}
	var tot uint
	for _, v := range cur {
		tot += v
	}
	if tot != uint(c.adds) {
		c.fail("conservation", "Add", valueClasses[cls], "%s: under+bins+over = %d after %d Adds", c.kind(), tot, c.adds)
		return
	}
	c.prev = cur
	// (ii) placement by the stated edges
	if cls == 9 {
		c.probe("infinite_sample")
		want := c.sh.nbins + 1
		if math.IsInf(x, -1) {
			want = 0
		}
		if moved != want {
			c.fail("placement", "Add", valueClasses[cls], "%s%s Add(%v) incremented %s; it belongs in %s", c.kind(), c.shapeStr(), x, c.slotName(moved), c.slotName(want))
		}
		return
	}
	if cls == 8 {
		c.probe("loghist_non_positive_value")
		if moved != 0 {
			c.fail("placement", "Add", valueClasses[cls], "%s%s Add(%v) incremented %s; a non-positive value is below the first bin and belongs in the under count", c.kind(), c.shapeStr(), x, c.slotName(moved))
		}
		return
	}
	idx, lok, uok := c.sh.place(x)
	want := c.sh.counter(idx)
	ok := moved == want
	if !ok && lok && moved == c.sh.counter(idx-1) {
		ok = true
	}
	if !ok && uok && moved == c.sh.counter(idx+1) {
		ok = true
	}
	if lok || uok {
		c.probe("placement_within_rounding_of_edge")
	}
	if !ok {
		c.fail("placement", "Add", valueClasses[cls], "%s%s Add(%v) incremented %s; the stated edges put it in %s (exact bin index %d)", c.kind(), c.shapeStr(), x, c.slotName(moved), c.slotName(want), idx)
	}
}

func (c *ctx) shapeStr() string {
	if c.sh.log {
		return fmt.Sprintf("(b=%d,m=%v,nbins=%d)", c.sh.b, c.sh.m, c.sh.nbins)
	}
	return fmt.Sprintf("(min=%v,max=%v,nbins=%d)", c.sh.min, c.sh.max, c.sh.nbins)
}

func (c *ctx) slotName(i int) string {
	if i == 0 {
		return "under"
	}
	if i == c.sh.nbins+1 {
		return "over"
	}
	return fmt.Sprintf("bin %d", i-1)
}

// binToValue checks edges, monotonicity and interpolation.
func (c *ctx) binToValue() {
	s := c.sh
	c.hash.Str("B")
	if c.g.Chance(1, 3) {
		// all integer edges: strictly increasing and equal to the documented edges
		c.logf("BinToValue(0..%d) increasing", s.nbins)
		prev := math.Inf(-1)
		for i := 0; i <= s.nbins; i++ {
			var v float64
			if !c.try("BinToValue", "", func() { v = c.h.BinToValue(float64(i)) }) {
				return
			}
			if !(v > prev) {
				c.fail("bintovalue", "BinToValue", "monotone", "%s%s: BinToValue(%d)=%v is not above BinToValue(%d)=%v", c.kind(), c.shapeStr(), i, v, i-1, prev)
				return
			}
			prev = v
			if !c.closeTo(v, s.edge(float64(i))) {
				c.fail("bintovalue", "BinToValue", "edge", "%s%s: BinToValue(%d)=%v, documented edge is %v", c.kind(), c.shapeStr(), i, v, s.edge(float64(i)))
				return
			}
		}
		return
	}
	t := float64(c.g.Intn(s.nbins)) + c.g.Unit()
	c.logf("BinToValue(%v)", t)
	var v float64
	if !c.try("BinToValue", "", func() { v = c.h.BinToValue(t) }) {
		return
	}
	if !c.closeTo(v, s.edge(t)) {
		c.fail("bintovalue", "BinToValue", "interpolation", "%s%s: BinToValue(%v)=%v, interpolating the documented edges gives %v", c.kind(), c.shapeStr(), t, v, s.edge(t))
	}
}

func (c *ctx) closeTo(got, want float64) bool {
	var r float64
	if c.sh.log {
		r = math.Abs(math.Log(got)-math.Log(want)) / (64 * refmodel.Eps * (1 + math.Abs(math.Log(want))))
	} else {
		r = math.Abs(got-want) / (192 * refmodel.Eps * math.Max(math.Abs(c.sh.min), math.Max(math.Abs(c.sh.max), math.Abs(want))))
	}
	if c.opt.Counting {
		c.p.St.Ratio(r, "BinToValue vs documented edge")
	}
	return r <= 1
}

// quantile checks HistogramQuantile at a drawn q against both readings of
// "the floor(q*total)-th smallest sample".
func (c *ctx) quantile() {
	under, counts, over := c.h.Counts()
	counts = append([]uint(nil), counts...)
	total := under + over
	for _, n := range counts {
		total += n
	}
	var q float64
	qcls := c.g.Pick(1, 1, 3, 2, 2, 3)
	switch qcls {
	case 0:
		q = 0
	case 1:
		q = 1
	case 2:
		if total > 0 {
			q = float64(c.g.Intn(int(total)+1)) / float64(total)
		}
	case 3:
		if total > 0 {
			q = simkit.Ulps(float64(c.g.Intn(int(total)+1))/float64(total), c.g.Range(1, 3))
		}
	case 4:
		if total > 0 {
			q = simkit.Ulps(float64(c.g.Intn(int(total)+1))/float64(total), -c.g.Range(1, 3))
		}
	default:
		q = c.g.Unit()
	}
	if q < 0 {
		q = 0
	}
	if q > 1 {
		q = 1
	}
	c.logf("HistogramQuantile(q=%v) [under=%d binned=%d over=%d]", q, under, total-under-over, over)
	c.hash.Str(fmt.Sprintf("Q%d", qcls))
	if total > 0 {
		c.nontriv = true
	}
	if under > 0 {
		c.probe("quantile_with_nonzero_under")
	}
	if q == 0 {
		c.probe("quantile_q0")
	}
	if q == 1 {
		c.probe("quantile_q1")
	}
	var got float64
	sig := fmt.Sprintf("under%s/over%s", zn(under), zn(over))
	if !c.try("HistogramQuantile", sig, func() { got = stats.HistogramQuantile(c.h, q) }) {
		return
	}
	if total == 0 {
		return
	}
	// candidate ranks: exact floor(q*total) and the float64 product's floor
	gs := []int64{}
	ex := new(big.Rat).Mul(new(big.Rat).SetFloat64(q), big.NewRat(int64(total), 1))
	gs = append(gs, new(big.Int).Div(ex.Num(), ex.Denom()).Int64())
	if gf := int64(math.Floor(float64(total) * q)); gf != gs[0] {
		gs = append(gs, gf)
	}
	type reading struct {
		desc string
		nan  bool
		bin  int
		pos  int64 // 0-based position inside the bin
	}
	var readings []reading
	lastNonEmpty := -1
	for b, n := range counts {
		if n > 0 {
			lastNonEmpty = b
		}
	}
	for _, g := range gs {
		// "the k-th smallest sample" counts from 1 (the 1st smallest is the minimum;
		// q=1 names the maximum): that reading is demanded whenever it names a
		// sample. Rank 0 names no sample: nothing is demanded there beyond not
		// panicking. The in-bin interpolation rank is still accepted within +-1
		// (see below), which covers an implementation that interpolates from 0.
		for base := int64(1); base <= 1; base++ {
			s := g - base // 0-based sample index
			if s < 0 || s >= int64(total) {
				readings = append(readings, reading{desc: fmt.Sprintf("rank %d (%d-based): no such sample", g, base), bin: -1})
				continue
			}
			if s < int64(under) {
				readings = append(readings, reading{desc: fmt.Sprintf("rank %d (%d-based) is in the under count", g, base), nan: true})
				continue
			}
			if s >= int64(total-over) {
				readings = append(readings, reading{desc: fmt.Sprintf("rank %d (%d-based) is in the over count", g, base), nan: true})
				continue
			}
			r := s - int64(under)
			for b, n := range counts {
				if r < int64(n) {
					readings = append(readings, reading{desc: fmt.Sprintf("rank %d (%d-based) is sample %d of %d in bin %d", g, base, r, n, b), bin: b, pos: r})
					if b == lastNonEmpty {
						c.probe("quantile_rank_in_last_nonempty_bin")
					}
					break
				}
				r -= int64(n)
			}
		}
	}
	ok := false
	for _, rd := range readings {
		switch {
		case rd.bin == -1 && !rd.nan:
			ok = true // nothing is demanded when the rank names no sample
		case rd.nan:
			if math.IsNaN(got) {
				ok = true
			}
		default:
			if math.IsNaN(got) {
				continue
			}
			lo, hi := c.h.BinToValue(float64(rd.bin)), c.h.BinToValue(float64(rd.bin+1))
			slack := 1e-12 * (math.Abs(lo) + math.Abs(hi))
			if got < lo-slack || got > hi+slack {
				continue
			}
			n := int64(counts[rd.bin])
			for r := rd.pos - 1; r <= rd.pos+2; r++ {
				if r < 0 || r > n {
					continue
				}
				want := c.h.BinToValue(float64(rd.bin) + float64(r)/float64(n))
				if math.Abs(got-want) <= 1e-12*(math.Abs(want)+math.Abs(hi-lo)) {
					ok = true
				}
			}
		}
		if ok {
			break
		}
	}
	if !ok {
		descs := ""
		for _, rd := range readings {
			descs += "; " + rd.desc
		}
		c.fail("quantile", "HistogramQuantile", sig, "%s: HistogramQuantile(q=%v) = %v with under=%d counts=%v over=%d is consistent with no reading of the floor(q*total)-th smallest sample%s", c.kind(), q, got, under, counts, over, descs)
	}
}

func zn(n uint) string {
	if n == 0 {
		return "=0"
	}
	return ">0"
}

// monotone checks that HistogramQuantile is non-decreasing in q over non-NaN
// results, and HistogramIQR == Q(.75)-Q(.25).
func (c *ctx) monotone() {
	under, _, over := c.h.Counts()
	sig := fmt.Sprintf("under%s/over%s", zn(under), zn(over))
	n := c.g.Range(3, 12)
	qs := make([]float64, n)
	for i := range qs {
		qs[i] = c.g.Unit()
	}
	qs = append(qs, 0, 1, 0.25, 0.75)
	sort.Float64s(qs)
	c.logf("HistogramQuantile monotone over %d q's; HistogramIQR", len(qs))
	c.hash.Str("M")
	prev, prevQ := math.Inf(-1), -1.0
	var q25, q75 float64
	for _, q := range qs {
		var v float64
		if !c.try("HistogramQuantile", sig, func() { v = stats.HistogramQuantile(c.h, q) }) {
			return
		}
		if q == 0.25 {
			q25 = v
		}
		if q == 0.75 {
			q75 = v
		}
		if math.IsNaN(v) {
			continue
		}
		if v < prev {
			c.fail("quantile-monotone", "HistogramQuantile", sig, "%s: HistogramQuantile(%v)=%v < HistogramQuantile(%v)=%v", c.kind(), q, v, prevQ, prev)
			return
		}
		prev, prevQ = v, q
	}
	var iqr float64
	if !c.try("HistogramIQR", sig, func() { iqr = stats.HistogramIQR(c.h) }) {
		return
	}
	want := q75 - q25
	if math.Float64bits(iqr) != math.Float64bits(want) && !(math.IsNaN(iqr) && math.IsNaN(want)) {
		c.fail("iqr", "HistogramIQR", sig, "%s: HistogramIQR=%v, Q(0.75)-Q(0.25)=%v-%v=%v", c.kind(), iqr, q75, q25, want)
	}
}

func (p *Prop) Run(t *simhook.Tape, opt simkit.RunOpt) *simkit.RunResult {
	g := simkit.Work(t)
	c := &ctx{p: p, g: g, opt: opt, hash: simkit.NewHasher()}
	kind := g.Pick(3, 3, 2) // linear, log, stub
	var build func()
	sh := &shape{}
	switch kind {
	case 0:
		sh.nbins = pickBins(g)
		width := math.Pow(10, float64(g.Range(-3, 6))) * (1 + g.Unit())
		offs := []float64{0, 0.5, -0.5, 3, -3, 1000, -1000, 1e5, -1e5, -1}
		sh.min = width * offs[g.Intn(len(offs))]
		sh.max = sh.min + width
		if g.Chance(1, 12) {
			// "any min<max": a range near the top of the double range (both ends of
			// one sign, so that max-min and every edge are finite)
			a := math.Pow(10, g.Uniform(300, 307.9))
			b := a * g.Uniform(0.05, 0.9)
			if g.Chance(1, 2) {
				sh.min, sh.max = b, a
			} else {
				sh.min, sh.max = -a, -b
			}
			sh.huge = true
		}
		build = func() { c.h = stats.NewLinearHist(sh.min, sh.max, sh.nbins) }
	case 1:
		sh.log = true
		sh.b = g.Range(2, 10)
		sh.m = float64(g.Range(1, 4))
		want := pickBins(g)
		// max = b^((want - u)/m): ceil(m*log_b(max)) = want unless u rounds to 0
		u := 0.0
		if !g.Chance(1, 4) {
			u = g.Unit() * 0.98
		}
		sh.lnb = refmodel.Ln(refmodel.BF(float64(sh.b)))
		mx := math.Pow(float64(sh.b), (float64(want)-u)/sh.m)
		if !(mx > 1) {
			mx = float64(sh.b)
		}
		sh.max = mx
		build = func() { c.h = stats.NewLogHist(sh.b, sh.m, mx) }
	case 2:
		c.stub = true
		sh.nbins = pickBins(g)
		st := &stubHist{min: float64(g.Range(-5, 5)), width: float64(g.Range(1, 4)), counts: make([]uint, sh.nbins)}
		sh.min, sh.max = st.min, st.min+st.width*float64(sh.nbins)
		if g.Chance(1, 3) {
			// a user histogram whose BinToValue is not linear inside a bin: the
			// in-bin interpolation must go through the histogram's own BinToValue
			st.curved = true
			c.probe("stub_histogram_with_nonlinear_bins")
		}
		if g.Chance(1, 2) {
			st.under = uint(g.Range(0, 6))
		}
		if g.Chance(1, 2) {
			st.over = uint(g.Range(0, 6))
		}
		big := g.Chance(1, 4)
		for i := range st.counts {
			if g.Chance(2, 3) {
				st.counts[i] = uint(g.Range(0, 8))
				if big && g.Chance(1, 2) {
					// counts no producer in this harness could add one by one: 2^k-1, 2^k, 2^k+1 up to 2^40
					st.counts[i] = uint(1)<<uint(g.Range(8, 40)) + uint(g.Range(0, 2)) - 1
				}
			}
		}
		if big {
			c.probe("stub_histogram_with_huge_counts")
		}
		build = func() { c.h = st }
		if opt.Counting {
			p.St.Faults.Inc("stub_histogram_counters")
		}
	}
	c.sh = sh
	nev := 0
	switch g.Pick(3, 4, 2) {
	case 0:
		nev = g.Range(1, 8)
	case 1:
		nev = g.Range(1, 60)
	default:
		nev = g.Range(1, 500)
	}
	body := func() {
		if !c.try("New", "", build) {
			return
		}
		_, b, _ := c.h.Counts()
		if !c.stub {
			if sh.log {
				sh.nbins = len(b)
			} else if len(b) != sh.nbins {
				c.fail("shape", "New", "", "NewLinearHist(%v,%v,%d) has %d bins", sh.min, sh.max, sh.nbins, len(b))
				return
			}
		}
		if sh.nbins < 1 {
			return
		}
		c.logf("%s%s events=%d", c.kind(), c.shapeStr(), nev)
		c.hash.Str(fmt.Sprintf("%s/%d", c.kind(), sh.nbins))
		c.prev = c.snapshot()
		for e := 0; e < nev && c.viol == nil && !simhook.OverBudget(); e++ {
			var k int
			if c.stub {
				k = 2 + g.Pick(3, 1)
			} else {
				k = g.Pick(12, 1, 3, 1)
			}
			switch k {
			case 0:
				c.add()
			case 1:
				c.binToValue()
			case 2:
				c.quantile()
			case 3:
				c.monotone()
			}
		}
		if c.viol == nil && !c.stub {
			c.quantile()
			c.monotone()
		}
	}
	res, abort := simkit.RunSolo(t, 4000000, 5000000, true, body)
	rr := &simkit.RunResult{Hash: uint64(c.hash), Nontrivial: c.nontriv, Steps: res.Steps, History: c.hist, Policy: "seq"}
	if abort != nil && !simkit.AbortIsVerdict(abort) {
		rr.BudgetHit = true
	}
	if simkit.AbortIsVerdict(abort) && c.viol == nil {
		c.viol = &simkit.Violation{Property: "C14", Oracle: "C14/no-progress", Op: "run", Seq: res.Steps, Message: abort.Reason + abort.Where()}
		rr.BudgetHit = true
	}
	rr.Violation = c.viol
	return rr
}

func pickBins(g simkit.G) int {
	switch g.Pick(2, 3, 2) {
	case 0:
		return g.Range(1, 3)
	case 1:
		return g.Range(1, 12)
	}
	return g.Range(1, 50)
}
