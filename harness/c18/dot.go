package c18

import (
	"fmt"

	"github.com/aclements/go-moremath/graph/graphout"
	"verif.local/harness/refmodel"
	"verif.local/harness/simenv"
)

var specials = []byte{'"', '\\', '{', '}', '<', '>', '|', '\n'}

// drawString draws a string exercising the quoting.
func (c *ctx) drawString() string {
	n := c.g.Range(0, 6)
	b := make([]byte, 0, n)
	for i := 0; i < n; i++ {
		switch c.g.Pick(6, 4, 2, 1, 1, 2) {
		case 5:
			b = append(b, '\\', "lrNGnT"[c.g.Intn(6)]) // backslash + escape letter
		case 0:
			b = append(b, specials[c.g.Intn(len(specials))])
		case 1:
			// letters, including those that follow a backslash in Dot's own escape
			// sequences (\l \r \N \G \E \T \H \L): a backslash in a Go string is data
			b = append(b, "abcdeflrNGETHLn"[c.g.Intn(15)])
		case 2:
			b = append(b, " \t,;=[]-%/n"[c.g.Intn(11)])
		case 3:
			// a byte that is not valid UTF-8 on its own (Go strings are byte strings)
			b = append(b, []byte{0xff, 0xfe, 0xe9, 0x80, 0xc0}[c.g.Intn(5)])
			c.probe("dot_string_contains_non_utf8_byte")
		default:
			b = append(b, "é✓"[0:]...)
		}
	}
	s := string(b)
	if c.opt.Counting {
		for _, ch := range specials {
			for i := 0; i < len(s); i++ {
				if s[i] == ch {
					c.p.St.Probes.Inc(fmt.Sprintf("dot_string_contains_%q", string(ch)))
					break
				}
			}
		}
	}
	return s
}

func (c *ctx) drawAttrs(max int) []graphout.DotAttr {
	n := c.g.Range(0, max)
	if n == 0 {
		return nil
	}
	names := []string{"color", "shape", "weight", "style", "label", "tooltip"}
	out := make([]graphout.DotAttr, 0, n)
	used := map[string]bool{}
	for i := 0; i < n; i++ {
		name := names[c.g.Intn(len(names))]
		if used[name] {
			continue
		}
		used[name] = true
		var v interface{}
		switch c.g.Pick(4, 1, 1, 1, 1) {
		case 0:
			v = c.drawString()
		case 1:
			v = c.g.Range(-5, 100)
		case 2:
			v = uint(c.g.Range(0, 9))
		case 3:
			v = float64(c.g.Range(-8, 8)) / 4
		case 4:
			v = graphout.DotLiteral([]string{"red", "box", "3", "dashed"}[c.g.Intn(4)])
		}
		out = append(out, graphout.DotAttr{Name: name, Val: v})
	}
	return out
}

func attrWant(a graphout.DotAttr) (quoted bool, val string) {
	switch v := a.Val.(type) {
	case string:
		return true, v
	case graphout.DotLiteral:
		return false, string(v)
	default:
		return false, fmt.Sprintf("%v", v)
	}
}

// sameAttrs compares an emitted attribute list with the expected one as a
// multiset: the statement does not fix the order of attributes. A string value
// must be quoted (and unescape to the original); any other value may be
// emitted quoted or bare as long as its text is the same.
func sameAttrs(got []refmodel.DotAttr, want []graphout.DotAttr) string {
	if len(got) != len(want) {
		return fmt.Sprintf("%d attributes, want %d", len(got), len(want))
	}
	used := make([]bool, len(got))
	for _, w := range want {
		q, v := attrWant(w)
		found := false
		for i, g := range got {
			if used[i] || g.Name != w.Name || g.Val != v {
				continue
			}
			if q && !g.Quoted {
				continue
			}
			used[i] = true
			found = true
			break
		}
		if !found {
			return fmt.Sprintf("no attribute %s=%q (string=%v) among %v", w.Name, v, q, got)
		}
	}
	return ""
}

// dot is sub-simulation (b).
func (c *ctx) dot() {
	g := c.g
	n := g.Range(0, 8)
	adj := make([][]int, n)
	nedges := 0
	for i := range adj {
		k := g.Range(0, 4)
		for j := 0; j < k && n > 0; j++ {
			adj[i] = append(adj[i], g.Intn(n)) // self-loops and parallel edges arise naturally
			nedges++
		}
	}
	name := c.drawString()
	var labels []string
	var nodeAttrs [][]graphout.DotAttr
	var edgeAttrs [][][]graphout.DotAttr
	useLabel, useNA, useEA := g.Chance(1, 2), g.Chance(1, 2), g.Chance(1, 2)
	if useLabel {
		for i := 0; i < n; i++ {
			labels = append(labels, c.drawString())
		}
	}
	if useNA {
		if c.g.Chance(1, 3) {
			// the caller serves every node from one shared attribute table: prefixes
			// of different lengths over one backing array (spare capacity behind each)
			table := c.drawAttrs(3)
			for len(table) < 3 {
				table = append(table, graphout.DotAttr{Name: []string{"penwidth", "fontsize", "peripheries"}[len(table)], Val: len(table) + 1})
			}
			for k := range table {
				if table[k].Name == "label" {
					table[k].Name = "xlabel"
				}
			}
			for i := 0; i < n; i++ {
				nodeAttrs = append(nodeAttrs, table[:c.g.Range(0, 2)])
			}
			c.probe("dot_node_attrs_from_shared_table")
		} else {
			for i := 0; i < n; i++ {
				nodeAttrs = append(nodeAttrs, c.drawAttrs(3))
			}
		}
	}
	if useEA {
		for i := 0; i < n; i++ {
			var per [][]graphout.DotAttr
			for range adj[i] {
				per = append(per, c.drawAttrs(2))
			}
			edgeAttrs = append(edgeAttrs, per)
		}
	}
	c.logf("Dot: %d nodes %d edges name=%q label=%v nodeAttrs=%v edgeAttrs=%v adj=%v", n, nedges, name, useLabel, useNA, useEA, adj)
	c.hash.Str(fmt.Sprintf("dot/%d/%d/%v%v%v", n, nedges, useLabel, useNA, useEA))
	c.op("Dot.Fprint")

	// callbacks: counted, crashable
	labelCalls, crashLabelAt := 0, 0
	mk := func() graphout.Dot {
		d := graphout.Dot{Name: name}
		if useLabel {
			d.Label = func(i int) string {
				labelCalls++
				if crashLabelAt > 0 && labelCalls == crashLabelAt {
					panic(&simenv.Crash{Where: "Dot.Label"})
				}
				return labels[i]
			}
		}
		if useNA {
			d.NodeAttrs = func(i int) []graphout.DotAttr { return nodeAttrs[i] }
		}
		if useEA {
			d.EdgeAttrs = func(i, e int) []graphout.DotAttr { return edgeAttrs[i][e] }
		}
		return d
	}
	sg := func() *simenv.SimGraph { return &simenv.SimGraph{Adj: adj} }

	// ---- fault-free run ----
	w0 := &simenv.SimWriter{FailAt: -1}
	var err0 error
	if pv := c.try(func() { err0 = mk().Fprint(w0, sg()) }); pv != nil {
		c.fail("dot-panic", "Fprint", "fault-free", "Dot.Fprint panicked: %v", pv)
		return
	}
	if err0 != nil {
		c.fail("dot-error", "Fprint", "fault-free", "Dot.Fprint returned %v on a writer that never fails", err0)
		return
	}
	full := string(w0.Buf)
	doc, perr := refmodel.ParseDot(full)
	if perr != nil {
		c.fail("dot-parse", "Fprint", "fault-free", "Dot output does not parse: %v\n%s", perr, full)
		return
	}
	if doc.Name != name {
		c.fail("dot-quote", "Fprint", "name", "graph name unescapes to %q, want %q\n%s", doc.Name, name, full)
		return
	}
	if len(doc.Nodes) != n {
		c.fail("dot-nodes", "Fprint", "count", "%d node statements for %d nodes\n%s", len(doc.Nodes), n, full)
		return
	}
	seen := make([]bool, n)
	for _, nd := range doc.Nodes {
		if nd.ID >= n || seen[nd.ID] {
			c.fail("dot-nodes", "Fprint", "once", "node n%d is named twice or does not exist\n%s", nd.ID, full)
			return
		}
		seen[nd.ID] = true
		var want []graphout.DotAttr
		haveLabel := false
		if useNA {
			want = append(want, nodeAttrs[nd.ID]...)
			for _, a := range want {
				if a.Name == "label" {
					haveLabel = true
				}
			}
		}
		if !haveLabel {
			lbl := fmt.Sprintf("%d", nd.ID)
			if useLabel {
				lbl = labels[nd.ID]
			}
			want = append(want, graphout.DotAttr{Name: "label", Val: lbl})
		}
		if msg := sameAttrs(nd.Attrs, want); msg != "" {
			c.fail("dot-quote", "Fprint", "node-attrs", "node n%d: %s\n%s", nd.ID, msg, full)
			return
		}
	}
	// edges: multiset of (from,to,attrs) in adjacency order per node
	if len(doc.Edges) != nedges {
		c.fail("dot-edges", "Fprint", "count", "%d edge statements for %d adjacency entries\n%s", len(doc.Edges), nedges, full)
		return
	}
	pos := make([]int, n)
	for _, e := range doc.Edges {
		if e.From >= n || pos[e.From] >= len(adj[e.From]) {
			c.fail("dot-edges", "Fprint", "once", "edge n%d -> n%d is not in the graph (or named too often)\n%s", e.From, e.To, full)
			return
		}
		k := pos[e.From]
		pos[e.From]++
		if adj[e.From][k] != e.To {
			c.fail("dot-edges", "Fprint", "target", "edge %d of n%d goes to n%d in the output, to n%d in the graph\n%s", k, e.From, e.To, adj[e.From][k], full)
			return
		}
		var want []graphout.DotAttr
		if useEA {
			want = edgeAttrs[e.From][k]
		}
		if msg := sameAttrs(e.Attrs, want); msg != "" {
			c.fail("dot-quote", "Fprint", "edge-attrs", "edge %d of n%d: %s\n%s", k, e.From, msg, full)
			return
		}
	}
	// Sprint and DotString agree with the above
	var sp string
	if pv := c.try(func() { sp = mk().Sprint(sg()) }); pv != nil || sp != full {
		c.fail("dot-sprint", "Sprint", "", "Dot.Sprint differs from what Fprint wrote (panic=%v)", pv)
		return
	}
	s := c.drawString()
	var qs string
	if pv := c.try(func() { qs = graphout.DotString(s) }); pv != nil {
		c.fail("dot-panic", "DotString", "", "DotString(%q) panicked: %v", s, pv)
		return
	}
	if d, err := refmodel.ParseDot("digraph " + qs + " {\n}\n"); err != nil || d.Name != s {
		c.fail("dot-quote", "DotString", "", "DotString(%q) = %s does not unescape to the original (%v)", s, qs, err)
		return
	}

	// ---- fault enumeration: the writer fails at every write index ----
	nwrites := w0.Calls
	for k := 0; k < nwrites && c.viol == nil; k++ {
		short := 0
		kind := "writer_error"
		if w0.Lens[k] > 1 && c.f.Chance(1, 2) {
			short = 1 + c.f.Intn(w0.Lens[k]-1)
			kind = "writer_short_write"
		}
		where := "node/edge line"
		if k == 0 {
			where = "header"
		} else if k == nwrites-1 {
			where = "closing brace"
		}
		w := &simenv.SimWriter{FailAt: k, Short: short}
		if c.f.Chance(1, 3) {
			// transient fault: only write #k fails, later writes would succeed
			w.Transient = true
			kind = "writer_transient_error"
		}
		c.fault(kind, fmt.Sprintf("write #%d of %d (%s), %d of %d bytes accepted", k, nwrites, where, short, w0.Lens[k]))
		c.probe("writer_fault_in_" + where)
		var err error
		sig := fmt.Sprintf("%s@%s", kind, where)
		if pv := c.try(func() { err = mk().Fprint(w, sg()) }); pv != nil {
			c.fail("dot-fault", "Fprint", sig, "Dot.Fprint panicked when write #%d failed: %v", k, pv)
			return
		}
		if err == nil {
			c.fail("dot-fault", "Fprint", sig, "write #%d of %d failed (%d of %d bytes accepted) but Dot.Fprint returned nil; the writer holds %d of %d bytes", k, nwrites, short, w0.Lens[k], len(w.Buf), len(full))
			return
		}
		if len(w.Buf) > len(full) || string(w.Buf) != full[:len(w.Buf)] {
			c.fail("dot-fault", "Fprint", sig, "after write #%d failed the bytes accepted are not a prefix of the fault-free output", k)
			return
		}
	}
	// ---- callback crash ----
	if useLabel && n > 0 && c.viol == nil && c.f.Chance(1, 2) {
		labelCalls = 0
		crashLabelAt = 1 + c.f.Intn(n)
		c.fault("callback_crash", fmt.Sprintf("Dot.Label panics on call %d", crashLabelAt))
		w := &simenv.SimWriter{FailAt: -1}
		pv := c.try(func() { mk().Fprint(w, sg()) })
		at := crashLabelAt
		crashLabelAt = 0
		if _, ok := pv.(*simenv.Crash); !ok {
			// nodes with their own label attribute never call Label: then no crash is due
			if pv != nil || labelCalls >= at {
				c.fail("dot-fault", "Fprint", "callback_crash", "a panic in Dot.Label (call %d) did not propagate as that panic (got %v)", at, pv)
				return
			}
		} else {
			c.probe("callback_crash_propagated")
		}
		if len(w.Buf) > len(full) || string(w.Buf) != full[:len(w.Buf)] {
			c.fail("dot-fault", "Fprint", "callback_crash", "after a Label crash the bytes written are not a prefix of the fault-free output")
			return
		}
		// a later call is unaffected
		w2 := &simenv.SimWriter{FailAt: -1}
		if pv := c.try(func() { mk().Fprint(w2, sg()) }); pv != nil || string(w2.Buf) != full {
			c.fail("dot-fault", "Fprint", "after-crash", "Dot.Fprint after an aborted call differs from the fault-free output (panic=%v)", pv)
		}
	}
}
