// Package c18 holds three sub-simulations for the graph property
// (DESIGN.md §4.5): (a) NodeMarks against a set model under Mark / Unmark /
// Test / Next histories that straddle every word and growth boundary;
// (b) Dot output against a faulty writer (every write index, short writes,
// callback crashes); (c) a graph session of read operations on
// simulator-owned graphs, compared with definitional reference algorithms.
package c18

import (
	"fmt"

	"verif.local/harness/simkit"
	"verif.local/simhook"
)

type Prop struct{ St *simkit.Stats }

func New() *Prop                     { return &Prop{St: simkit.NewStats()} }
func (p *Prop) ID() string           { return "C18" }
func (p *Prop) Stats() *simkit.Stats { return p.St }

func (p *Prop) Meta() simkit.Meta {
	return simkit.Meta{
		Rule: "one run draws one of three sub-simulations. (a) marks: a zero-value NodeMarks or NewNodeMarks() under up to 400 Mark/Unmark/Test/Next events with ids straddling every 32-bit word and every storage growth boundary up to 2^17, against a sorted-set model checked after every event (all elements ever marked are re-tested after each mutation). (b) dot: a drawn multigraph (<=8 nodes) with drawn Name/Label/node and edge attributes containing every character the quoting must handle; the fault-free output is parsed and compared, then the writer is made to fail at EVERY write index and at drawn short-write offsets, and label/attr callbacks are crashed at drawn calls. (c) session: drawn multigraphs up to 60 nodes (self-loops, parallel edges, unreachable parts) and structured graphs (path, cycle, star, binary tree, layered DAG, cycle chain; up to 1e5 nodes, optionally relabelled) on simulator-owned SimGraph stubs; drawn read operations PreOrder/PostOrder/Euler/SCC/SimplifyMulti/SubgraphKeep/SubgraphRemove/MakeBiGraph/Equal each compared with a reference written from the definition. distinct = distinct hashes of the event-kind sequence with boundary classes (a), of graph shape + fault plan (b), of graph family/size class + operation list (c); non-trivial = at least one storage growth, injected fault, or traversal of a graph with >=2 nodes",
		Real: []string{"graphalg.NodeMarks", "graphalg.{PreOrder,PostOrder,Euler.Visit,SCC,SimplifyMulti}", "graph.{SubgraphKeep,SubgraphRemove,MakeBiGraph,Equal}", "graphout.{Dot.Fprint,Dot.Sprint,DotString}"},
		Stub: []string{"io.Writer (SimWriter with fault plan)", "graph.Graph/Weighted (SimGraph over simulator-owned adjacency)", "Euler/Dot callbacks (crashable)"},
		Assumptions: []string{
			"Mark/Unmark are not called with negative ids (the statement: a set of non-negative integers)",
			"DotAttr values of type bool and DotLiterals that are not a single Dot token are not generated",
			"SubgraphKeep is called with distinct in-range nodes and with edges whose both end points are kept (anything else is a documented panic or not a subgraph request)",
			"nothing is demanded of value copies of a NodeMarks taken before a growth",
			"edge weights are multiples of 1/4 so that sums of parallel edges are exact in any order",
			"sub-simulation (c) is input generation against definitional oracles; it is included because the mark set's growth path is only reached through the traversals at realistic sizes",
		},
		FaultKinds:    []string{"writer_error", "writer_short_write", "writer_transient_error", "callback_crash", "graph_out_crash"},
		NotApplicable: []string{"message loss/duplication/reordering", "partitions", "crash-restart with durable state", "torn/lost disk writes (no durable state: the only I/O is one io.Writer)", "disk full", "clock skew/jumps", "allocation or syscall failure"},
		RunsQuick:     120000, RunsThorough: 3000000,
	}
}

type ctx struct {
	p          *Prop
	g          simkit.G
	f          simkit.G
	opt        simkit.RunOpt
	hist       []string
	ftrace     []string
	hash       simkit.Hasher
	viol       *simkit.Violation
	nontriv    bool
	shortMarks bool // marks sub-simulation: the history is short enough for very large ids
}

func (c *ctx) logf(format string, a ...any) {
	if c.opt.KeepHistory {
		c.hist = append(c.hist, fmt.Sprintf(format, a...))
	}
}

func (c *ctx) probe(name string) {
	if c.opt.Counting {
		c.p.St.Probes.Inc(name)
	}
}

func (c *ctx) fault(kind, desc string) {
	if c.opt.Counting {
		c.p.St.Faults.Inc(kind)
	}
	if c.opt.KeepHistory {
		c.ftrace = append(c.ftrace, kind+": "+desc)
	}
	c.nontriv = true
}

func (c *ctx) op(name string) {
	if c.opt.Counting {
		c.p.St.Ops.Inc(name)
	}
}

func (c *ctx) fail(oracle, op, sig, format string, a ...any) {
	if c.viol == nil {
		c.viol = &simkit.Violation{Property: "C18", Oracle: "C18/" + oracle, Op: op, Sig: sig, Seq: simhook.Seq(), Message: fmt.Sprintf(format, a...)}
	}
}

// try runs a library operation; a panic is returned (nil if none). Aborts
// (step budget) are re-raised.
func (c *ctx) try(f func()) any {
	simhook.BeginOp()
	pv, _ := simkit.Try(f)
	if pv != nil {
		if a, ok := simkit.IsAbort(pv); ok {
			panic(a)
		}
	}
	return pv
}

func (p *Prop) Run(t *simhook.Tape, opt simkit.RunOpt) *simkit.RunResult {
	c := &ctx{p: p, g: simkit.Work(t), f: simkit.Fault(t), opt: opt, hash: simkit.NewHasher()}
	sub := c.g.Pick(3, 2, 4)
	var body func()
	runBudget := uint64(20000000)
	switch sub {
	case 0:
		body = c.marks
	case 1:
		body = c.dot
	default:
		body = c.session
		runBudget = 60000000
	}
	c.hash.Word(uint64(sub))
	res, abort := simkit.RunSolo(t, runBudget, runBudget*2, true, body) // (per-operation budget: only has to end a hang)
	rr := &simkit.RunResult{Hash: uint64(c.hash), Nontrivial: c.nontriv, Steps: res.Steps, History: c.hist, FaultTrace: c.ftrace, Policy: "seq"}
	if abort != nil && !simkit.AbortIsVerdict(abort) {
		rr.BudgetHit = true
	}
	if simkit.AbortIsVerdict(abort) && c.viol == nil {
		c.viol = &simkit.Violation{Property: "C18", Oracle: "C18/no-progress", Op: "run", Seq: res.Steps, Message: abort.Reason + abort.Where() + " (termination within the step budget is part of the property)"}
		rr.BudgetHit = true
	}
	rr.Violation = c.viol
	return rr
}
