package c18

import (
	"fmt"
	"sort"

	"github.com/aclements/go-moremath/graph/graphalg"
	"verif.local/simhook"
)

// setModel is the reference: a sorted set of non-negative integers.
type setModel struct{ xs []int }

func (s *setModel) has(i int) bool {
	k := sort.SearchInts(s.xs, i)
	return k < len(s.xs) && s.xs[k] == i
}
func (s *setModel) add(i int) {
	k := sort.SearchInts(s.xs, i)
	if k < len(s.xs) && s.xs[k] == i {
		return
	}
	s.xs = append(s.xs, 0)
	copy(s.xs[k+1:], s.xs[k:])
	s.xs[k] = i
}
func (s *setModel) del(i int) {
	k := sort.SearchInts(s.xs, i)
	if k < len(s.xs) && s.xs[k] == i {
		s.xs = append(s.xs[:k], s.xs[k+1:]...)
	}
}

// next returns the least member > i, or -1.
func (s *setModel) next(i int) int {
	k := sort.SearchInts(s.xs, i+1)
	if k < len(s.xs) {
		return s.xs[k]
	}
	return -1
}

// drawID draws an id biased to straddle word and growth boundaries.
func (c *ctx) drawID(capBits int) (int, string) {
	switch c.g.Pick(3, 3, 4, 2) {
	case 0:
		return c.g.Range(0, 70), "small"
	case 1:
		return 32*c.g.Range(1, 40) + c.g.Range(-1, 1), "word"
	case 2:
		// growth boundaries: 2^k words of 32 bits -> ids 32*2^k = 2^(k+5); NewNodeMarks starts at 1024
		k := c.g.Range(5, 17)
		return (1 << uint(k)) + c.g.Range(-1, 1), fmt.Sprintf("grow2^%d", k)
	default:
		if c.shortMarks && c.g.Chance(1, 3) {
			// far beyond the traversal sizes, in short histories only: Next scans
			// every word, so a long history over a 2^20-bit set is legitimately slow
			k := c.g.Range(18, 20)
			return (1 << uint(k)) + c.g.Range(-1, 1), fmt.Sprintf("grow2^%d", k)
		}
		return c.g.Range(0, 1<<17+100), "any"
	}
}

func (c *ctx) marks() {
	g := c.g
	var m *graphalg.NodeMarks
	ctor := "zero"
	capBits := 0
	if g.Chance(1, 2) {
		m = graphalg.NewNodeMarks()
		ctor = "new"
		capBits = 1024
	} else {
		m = new(graphalg.NodeMarks)
	}
	model := &setModel{}
	var ever []int
	everSet := &setModel{}
	nev := 0
	switch g.Pick(3, 3, 2) {
	case 0:
		nev = g.Range(1, 6)
	case 1:
		nev = g.Range(1, 60)
	default:
		nev = g.Range(1, 400)
	}
	c.shortMarks = nev <= 12
	c.logf("NodeMarks(%s) events=%d", ctor, nev)
	c.hash.Str("marks/" + ctor)
	maxMarked := -1

	checkAll := func(op string, sig string) {
		for _, e := range ever {
			var got bool
			if pv := c.try(func() { got = m.Test(e) }); pv != nil {
				c.fail("marks-panic", "Test", sig, "Test(%d) panicked after %s: %v", e, op, pv)
				return
			}
			if got != model.has(e) {
				c.fail("marks-test", op, sig, "after %s: Test(%d)=%v, set model says %v (marks must survive storage growth)", op, e, got, model.has(e))
				return
			}
		}
	}

	for e := 0; e < nev && c.viol == nil && !simhook.OverBudget(); e++ {
		switch g.Pick(6, 3, 3, 3, 1) {
		case 0: // Mark
			i, cls := c.drawID(capBits)
			sig := cls
			grows := i/32 >= (capBits+31)/32 && i > maxMarked
			if i >= capBits {
				if ctor == "new" && i >= 1024 {
					c.probe("mark_ge_1024_on_NewNodeMarks")
				}
				if ctor == "zero" && i >= 32 {
					c.probe("mark_beyond_capacity_on_zero_value")
				}
				if capBits > 0 && i >= 4*capBits {
					c.probe("growth_by_more_than_one_doubling")
				}
				// model of capacity only for probes: next power of two of words
				nw := 1
				for nw < i/32+1 {
					nw <<= 1
				}
				if 32*nw > capBits {
					capBits = 32 * nw
					c.nontriv = true
					sig += "/grow"
				}
			}
			_ = grows
			c.logf("Mark(%d) [%s]", i, sig)
			c.hash.Str("M" + sig)
			if pv := c.try(func() { m.Mark(i) }); pv != nil {
				c.fail("marks-panic", "Mark", sig, "Mark(%d) panicked on a %s NodeMarks: %v", i, ctor, pv)
				return
			}
			model.add(i)
			if !everSet.has(i) {
				everSet.add(i)
				ever = append(ever, i)
			}
			if i > maxMarked {
				maxMarked = i
			}
			checkAll(fmt.Sprintf("Mark(%d)", i), sig)
		case 1: // Unmark
			var i int
			cls := "member"
			if len(model.xs) > 0 && g.Chance(2, 3) {
				i = model.xs[g.Intn(len(model.xs))]
			} else {
				i, cls = c.drawID(capBits)
			}
			c.logf("Unmark(%d) [%s]", i, cls)
			c.hash.Str("U" + cls)
			if pv := c.try(func() { m.Unmark(i) }); pv != nil {
				c.fail("marks-panic", "Unmark", cls, "Unmark(%d) panicked: %v", i, pv)
				return
			}
			model.del(i)
			if !everSet.has(i) {
				everSet.add(i)
				ever = append(ever, i)
			}
			checkAll(fmt.Sprintf("Unmark(%d)", i), cls)
		case 2: // Test
			var i int
			cls := "neg"
			if g.Chance(1, 8) {
				i = -g.Range(1, 100)
			} else {
				i, cls = c.drawID(capBits)
			}
			var got bool
			c.logf("Test(%d) [%s]", i, cls)
			c.hash.Str("T" + cls)
			if pv := c.try(func() { got = m.Test(i) }); pv != nil {
				c.fail("marks-panic", "Test", cls, "Test(%d) panicked: %v", i, pv)
				return
			}
			want := i >= 0 && model.has(i)
			if got != want {
				c.fail("marks-test", "Test", cls, "Test(%d)=%v, set model says %v", i, got, want)
			}
		case 3: // Next
			var i int
			cls := "neg"
			switch g.Pick(1, 2, 3) {
			case 0:
				i = -g.Range(1, 5)
			case 1:
				if len(model.xs) > 0 {
					i = model.xs[g.Intn(len(model.xs))] + g.Range(-1, 0)
					cls = "member"
					break
				}
				fallthrough
			default:
				i, cls = c.drawID(capBits)
			}
			var got int
			c.logf("Next(%d) [%s]", i, cls)
			c.hash.Str("N" + cls)
			if pv := c.try(func() { got = m.Next(i) }); pv != nil {
				c.fail("marks-panic", "Next", cls, "Next(%d) panicked: %v", i, pv)
				return
			}
			if want := model.next(i); got != want {
				c.fail("marks-next", "Next", cls, "Next(%d)=%d, least member greater than %d is %d", i, got, i, want)
			}
		case 4: // full walk
			c.logf("walk Next(-1)...")
			c.hash.Str("W")
			var walk []int
			if pv := c.try(func() {
				for i := m.Next(-1); i >= 0 && len(walk) <= len(model.xs)+1; i = m.Next(i) {
					walk = append(walk, i)
				}
			}); pv != nil {
				c.fail("marks-panic", "Next", "walk", "Next walk panicked: %v", pv)
				return
			}
			if len(walk) != len(model.xs) {
				c.fail("marks-next", "Next", "walk", "Next walk enumerated %d elements %v, the set has %d", len(walk), head(walk), len(model.xs))
				return
			}
			for k := range walk {
				if walk[k] != model.xs[k] {
					c.fail("marks-next", "Next", "walk", "Next walk element %d is %d, the set's is %d", k, walk[k], model.xs[k])
					return
				}
			}
		}
	}
}

func head(xs []int) []int {
	if len(xs) > 12 {
		return xs[:12]
	}
	return xs
}
