package c18

import (
	"fmt"
	"sort"

	"github.com/aclements/go-moremath/graph"
	"github.com/aclements/go-moremath/graph/graphalg"
	"verif.local/harness/refmodel"
	"verif.local/harness/simenv"
	"verif.local/simhook"
)

// drawGraph draws a graph family and size; returns adjacency and a label.
func (c *ctx) drawGraph() (refmodel.Adj, string) {
	g := c.g
	fam := g.Pick(5, 1, 1, 1, 1, 1, 1, 1)
	if fam == 0 {
		// random multigraph up to 60 nodes with self-loops, parallel edges, unreachable parts
		var n int
		switch g.Pick(3, 3, 2) {
		case 0:
			n = g.Range(1, 5)
		case 1:
			n = g.Range(1, 16)
		default:
			n = g.Range(1, 60)
		}
		dens := g.Pick(2, 3, 2) // sparse / medium / dense
		adj := make(refmodel.Adj, n)
		for i := range adj {
			var k int
			switch dens {
			case 0:
				k = g.Pick(3, 3, 1)
			case 1:
				k = g.Range(0, 3)
			default:
				k = g.Range(0, 6)
			}
			for j := 0; j < k; j++ {
				switch g.Pick(6, 1, 1) {
				case 0:
					adj[i] = append(adj[i], g.Intn(n))
				case 1:
					adj[i] = append(adj[i], i) // self-loop
				case 2:
					if len(adj[i]) > 0 {
						adj[i] = append(adj[i], adj[i][g.Intn(len(adj[i]))]) // parallel edge
					} else {
						adj[i] = append(adj[i], g.Intn(n))
					}
				}
			}
		}
		hubs := 0
		if g.Chance(1, 4) {
			// hub nodes: out-degree well beyond any small-size fast path, with parallel edges
			hubs = g.Range(1, 2)
			for h := 0; h < hubs; h++ {
				u := g.Intn(n)
				for k := g.Range(9, 40); k > 0; k-- {
					if len(adj[u]) > 0 && g.Chance(1, 3) {
						adj[u] = append(adj[u], adj[u][g.Intn(len(adj[u]))])
					} else {
						adj[u] = append(adj[u], g.Intn(n))
					}
				}
			}
			c.probe("graph_with_hub_node_outdegree_ge_9")
		}
		if n >= 4 && g.Chance(1, 25) {
			// two mega hubs: adjacency lists of a thousand-plus entries (parallel edges
			// by the hundred) into an overlapping but different set of targets
			// half of the time the targets are turned into sinks first, so that each
			// hub is a component of its own with a thousand-plus raw out-edges into
			// components that are already finished (otherwise the hubs usually pull
			// the whole graph into one component)
			sinks := g.Chance(1, 2)
			if sinks {
				for v := 0; v < n; v += 2 {
					adj[v] = nil
				}
				c.probe("graph_with_two_mega_hubs_over_sinks")
			}
			for h := 0; h < 2; h++ {
				u := g.Intn(n)
				if sinks {
					u |= 1 // an odd node: not a sink
					if u >= n {
						u = 1
					}
				}
				miss := g.Intn(n) // a target this hub does not have
				for k := g.Range(1030, 2600); k > 0; k-- {
					v := g.Intn(n)
					if sinks {
						v &^= 1
					}
					if v == miss {
						continue
					}
					adj[u] = append(adj[u], v)
				}
			}
			hubs += 2
			c.probe("graph_with_two_mega_hubs")
		}
		return adj, fmt.Sprintf("random(n=%d,dens=%d,hubs=%d)", n, dens, hubs)
	}
	// structured graphs, sizes crossing the NodeMarks growth boundaries
	sizes := []int{2, 33, 1023, 1024, 1025, 2049, 4097, 8200, 33000, 100000}
	var n int
	switch g.Pick(4, 3, 1) {
	case 0:
		n = sizes[g.Intn(6)]
	case 1:
		n = g.Range(1000, 5000)
	default:
		n = sizes[6+g.Intn(4)]
	}
	adj := make(refmodel.Adj, n)
	name := ""
	switch fam {
	case 1:
		name = "path"
		for i := 0; i+1 < n; i++ {
			adj[i] = []int{i + 1}
		}
	case 2:
		name = "cycle"
		for i := 0; i < n; i++ {
			adj[i] = []int{(i + 1) % n}
		}
	case 3:
		name = "star"
		for i := 1; i < n; i++ {
			adj[0] = append(adj[0], i)
			if g.Chance(1, 2) && i%7 == 0 {
				adj[i] = []int{0}
			}
		}
	case 4:
		name = "bintree"
		for i := 0; i < n; i++ {
			if 2*i+1 < n {
				adj[i] = append(adj[i], 2*i+1)
			}
			if 2*i+2 < n {
				adj[i] = append(adj[i], 2*i+2)
			}
		}
	case 5:
		name = "layers"
		w := g.Range(2, 40)
		for i := 0; i < n; i++ {
			l := i / w
			for k := 0; k < 2; k++ {
				t := (l+1)*w + g.Intn(w)
				if t < n {
					adj[i] = append(adj[i], t)
				}
			}
		}
	case 7:
		// a deep path with forward chords: at every depth a node has two successors
		// of which the second is reachable from the first (depth-first order matters
		// at depths beyond any recursion cut-over)
		name = "chordpath"
		rev := g.Chance(1, 2)
		skip := g.Range(2, 5)
		for i := 0; i < n; i++ {
			var outs []int
			if i+1 < n {
				outs = append(outs, i+1)
			}
			if i+skip < n && (i%3 != 2) {
				outs = append(outs, i+skip)
			}
			if rev && len(outs) == 2 {
				outs[0], outs[1] = outs[1], outs[0]
			}
			adj[i] = outs
		}
	case 6:
		name = "cyclechain"
		k := g.Range(2, 50)
		for i := 0; i < n; i++ {
			base := i / k * k
			next := base + (i-base+1)%k
			if next >= n {
				next = base
			}
			adj[i] = append(adj[i], next)
			if i%k == 0 && base+k < n {
				adj[i] = append(adj[i], base+k)
			}
		}
	}
	if g.Chance(1, 2) {
		// relabel so that large ids are met early
		perm := g.Perm(n)
		re := make(refmodel.Adj, n)
		for u, outs := range adj {
			for _, v := range outs {
				re[perm[u]] = append(re[perm[u]], perm[v])
			}
		}
		adj = re
		name += "/relabelled"
	}
	return adj, fmt.Sprintf("%s(n=%d)", name, n)
}

func sizeClass(n int) string {
	switch {
	case n <= 4:
		return "<=4"
	case n <= 60:
		return "<=60"
	case n < 1024:
		return "<1024"
	case n < 32768:
		return ">=1024"
	}
	return ">=32768"
}

func (c *ctx) session() {
	g := c.g
	adj, label := c.drawGraph()
	n := len(adj)
	nops := g.Range(1, 5)
	if n > 5000 {
		nops = g.Range(1, 2)
	}
	// The graph the library sees is simulator-owned storage. In a third of the
	// sessions it is laid out CSR-style: every adjacency list is a sub-slice of
	// one flat array, so each list has spare capacity that IS the next node's
	// list (plus a sentinel tail). Whatever the layout, the library must leave it
	// alone: it is compared with a snapshot after every operation.
	var flat []int
	if n <= 5000 && g.Chance(1, 3) {
		tot := 0
		for _, r := range adj {
			tot += len(r)
		}
		flat = make([]int, tot, tot+8)
		k := 0
		for u, r := range adj {
			copy(flat[k:], r)
			adj[u] = flat[k : k+len(r)]
			k += len(r)
		}
		tail := flat[tot : tot+8]
		for i := range tail {
			tail[i] = -424242
		}
		label += "/csr"
		c.probe("graph_in_csr_layout_with_spare_capacity")
	}
	snap := make(refmodel.Adj, n)
	for u := range adj {
		snap[u] = append([]int(nil), adj[u]...)
	}
	var flatSnap []int
	if flat != nil {
		flatSnap = append([]int(nil), flat[:cap(flat)]...)
	}
	untouched := func(op string) bool {
		if flat != nil {
			full := flat[:cap(flat)]
			for i := range full {
				if full[i] != flatSnap[i] {
					c.fail("graph-modified", op, "csr", "the library wrote into the caller's graph storage during %s (flat adjacency array, offset %d: %d became %d)", op, i, flatSnap[i], full[i])
					return false
				}
			}
		}
		for u := range adj {
			if !refmodel.SameSeq(adj[u], snap[u]) {
				c.fail("graph-modified", op, "adjacency", "the library modified the adjacency list of node %d during %s", u, op)
				return false
			}
		}
		return true
	}
	c.logf("graph %s, %d operations", label, nops)
	c.hash.Str("session/" + label[:indexOf(label, '(')] + sizeClass(n))
	if n >= 2 {
		c.nontriv = true
	}
	if n >= 1024 {
		c.probe("traversal_graph_with_id_ge_1024")
	}
	if n >= 32768 {
		c.probe("traversal_graph_with_id_ge_32768")
	}
	for k := 0; k < nops && c.viol == nil && !simhook.OverBudget(); k++ {
		op := g.Pick(3, 3, 3, 4, 2, 2, 2, 2, 2)
		if n > 5000 && op >= 4 && op != 7 && op != 8 {
			op = g.Intn(4)
		}
		switch op {
		case 0:
			c.order(adj, true)
		case 1:
			c.order(adj, false)
		case 2:
			c.euler(adj)
		case 3:
			c.scc(adj)
		case 4:
			c.simplify(adj)
		case 5:
			c.subKeep(adj)
		case 6:
			c.subRemove(adj)
		case 7:
			c.bigraph(adj)
		case 8:
			c.equal(adj)
		}
		if c.viol == nil && n <= 5000 {
			untouched(fmt.Sprintf("operation %d", k+1))
		}
	}
}

func indexOf(s string, ch byte) int {
	for i := 0; i < len(s); i++ {
		if s[i] == ch {
			return i
		}
	}
	return len(s)
}

func (c *ctx) root(adj refmodel.Adj) int {
	n := len(adj)
	r := c.g.Intn(n)
	if len(adj[r]) > 0 {
		for _, v := range adj[r] {
			if v == r {
				c.probe("root_with_self_loop")
			}
		}
	}
	return r
}

func rangeErr(pv any) bool { _, ok := pv.(*simenv.RangeError); return ok }

func (c *ctx) order(adj refmodel.Adj, pre bool) {
	root := c.root(adj)
	name := "PostOrder"
	if pre {
		name = "PreOrder"
	}
	c.logf("%s(root=%d)", name, root)
	c.hash.Str(name)
	c.op(name)
	sg := &simenv.SimGraph{Adj: adj}
	var got []int
	if c.f.Chance(1, 6) {
		// fault: the graph's Out crashes once mid-traversal; the caller recovers and
		// simply calls again (anything the aborted traversal left behind must not matter)
		sg.CrashAt = 1 + c.f.Intn(4)
		c.fault("graph_out_crash", fmt.Sprintf("Graph.Out panics on call %d during %s", sg.CrashAt, name))
		pv := c.try(func() {
			if pre {
				graphalg.PreOrder(sg, root)
			} else {
				graphalg.PostOrder(sg, root)
			}
		})
		if pv != nil {
			if _, ok := pv.(*simenv.Crash); !ok {
				c.fail("order-panic", name, sizeClass(len(adj)), "%s panicked on a graph with %d nodes (root %d): %v", name, len(adj), root, simkitStr(pv))
				return
			}
			c.probe("callback_crash_propagated")
		}
		sg.CrashAt = 0
	}
	if pv := c.try(func() {
		if pre {
			got = graphalg.PreOrder(sg, root)
		} else {
			got = graphalg.PostOrder(sg, root)
		}
	}); pv != nil {
		c.fail("order-panic", name, sizeClass(len(adj)), "%s panicked on a graph with %d nodes (root %d): %v", name, len(adj), root, simkitStr(pv))
		return
	}
	wpre, wpost := refmodel.DFSOrders(adj, root)
	want := wpost
	if pre {
		want = wpre
	}
	if len(want) < len(adj) {
		c.probe("unreachable_nodes_present")
	}
	if !refmodel.SameSeq(got, want) {
		c.fail("order", name, sizeClass(len(adj)), "%s(root=%d) = %v..., depth-first %s-order is %v... (lengths %d and %d)", name, root, head(got), name[:len(name)-5], head(want), len(got), len(want))
	}
}

func simkitStr(pv any) string {
	if e, ok := pv.(error); ok {
		return e.Error()
	}
	return fmt.Sprint(pv)
}

func (c *ctx) euler(adj refmodel.Adj) {
	root := c.root(adj)
	c.hash.Str("Euler")
	c.op("Euler.Visit")
	wpre, wpost := refmodel.DFSOrders(adj, root)
	crashAt := 0
	if c.f.Chance(1, 4) {
		crashAt = 1 + c.f.Intn(len(wpre))
	}
	variant := c.g.Pick(3, 1, 1) // both callbacks / Enter nil / Exit nil
	if c.g.Chance(1, 12) {
		// both nil: documented as allowed ("It may be nil"); must simply terminate
		c.logf("Euler.Visit(root=%d) with nil Enter and Exit", root)
		if pv := c.try(func() { graphalg.Euler{}.Visit(&simenv.SimGraph{Adj: adj}, root) }); pv != nil {
			c.fail("order-panic", "Euler.Visit", "nil-callbacks", "Euler.Visit with nil callbacks panicked: %v", simkitStr(pv))
		}
		return
	}
	c.logf("Euler.Visit(root=%d) variant=%d crashEnterAt=%d", root, variant, crashAt)
	run := func(crash int) (enters, exits []int, nestOK bool, pv any) {
		var stack []int
		nestOK = true
		calls := 0
		e := graphalg.Euler{}
		if variant != 1 {
			e.Enter = func(n int) {
				calls++
				if crash > 0 && calls == crash {
					panic(&simenv.Crash{Where: "Euler.Enter"})
				}
				enters = append(enters, n)
				stack = append(stack, n)
			}
		}
		if variant != 2 {
			e.Exit = func(n int) {
				exits = append(exits, n)
				if variant == 0 {
					if len(stack) == 0 || stack[len(stack)-1] != n {
						nestOK = false
					} else {
						stack = stack[:len(stack)-1]
					}
				}
			}
		}
		pv = c.try(func() { e.Visit(&simenv.SimGraph{Adj: adj}, root) })
		if pv == nil && variant == 0 && len(stack) != 0 {
			nestOK = false
		}
		return
	}
	if crashAt > 0 && variant != 1 {
		c.fault("callback_crash", fmt.Sprintf("Euler.Enter panics on call %d", crashAt))
		_, _, _, pv := run(crashAt)
		if _, ok := pv.(*simenv.Crash); !ok {
			c.fail("euler", "Euler.Visit", "callback_crash", "a panic in Enter (call %d of %d) did not propagate as that panic (got %v)", crashAt, len(wpre), pv)
			return
		}
		c.probe("callback_crash_propagated")
	}
	// a fresh Visit (after the aborted one, if any) is unaffected
	enters, exits, nestOK, pv := run(0)
	if pv != nil {
		c.fail("order-panic", "Euler.Visit", sizeClass(len(adj)), "Euler.Visit panicked on a graph with %d nodes: %v", len(adj), simkitStr(pv))
		return
	}
	if variant != 1 && !refmodel.SameSeq(enters, wpre) {
		c.fail("euler", "Euler.Visit", "enter-order", "Enter order %v... is not the pre-order %v...", head(enters), head(wpre))
		return
	}
	if variant != 2 && !refmodel.SameSeq(exits, wpost) {
		c.fail("euler", "Euler.Visit", "exit-order", "Exit order %v... is not the post-order %v...", head(exits), head(wpost))
		return
	}
	if !nestOK {
		c.fail("euler", "Euler.Visit", "nesting", "Enter/Exit calls are not properly nested")
	}
}

func (c *ctx) scc(adj refmodel.Adj) {
	n := len(adj)
	flagSel := c.g.Pick(1, 1, 3)
	flags := []graphalg.SCCFlags{0, graphalg.SCCSubnodeComponent, graphalg.SCCEdges}[flagSel]
	c.logf("SCC(flags=%d)", flags)
	c.hash.Str(fmt.Sprintf("SCC%d", flagSel))
	c.op("SCC")
	var s *graphalg.SCCGraph
	if pv := c.try(func() { s = graphalg.SCC(&simenv.SimGraph{Adj: adj}, flags) }); pv != nil {
		c.fail("scc-panic", "SCC", sizeClass(n), "SCC panicked on a graph with %d nodes: %v", n, simkitStr(pv))
		return
	}
	var ref []int
	if n <= 60 {
		ref = refmodel.SCCByReachability(adj)
	} else {
		ref = refmodel.SCCKosaraju(adj)
	}
	var nc int
	comp := make([]int, n)
	for i := range comp {
		comp[i] = -1
	}
	var outs [][]int
	pv := c.try(func() {
		nc = s.NumNodes()
		for cid := 0; cid < nc; cid++ {
			sub := s.Subnodes(cid)
			if len(sub) == 0 {
				c.fail("scc", "SCC", "partition", "component %d is empty", cid)
				return
			}
			for _, u := range sub {
				if u < 0 || u >= n || comp[u] != -1 {
					c.fail("scc", "SCC", "partition", "node %d appears in two components or does not exist", u)
					return
				}
				comp[u] = cid
			}
			outs = append(outs, s.Out(cid))
			if again := s.Subnodes(cid); !refmodel.SameSeq(again, sub) {
				c.fail("scc", "SCC", "second-read", "Subnodes(%d) answered %v, then %v", cid, head(sub), head(again))
				return
			}
		}
		if flagSel >= 1 {
			for u := 0; u < n; u++ {
				if got := s.SubnodeComponent(u); got != comp[u] {
					c.fail("scc", "SCC", "subnode-component", "SubnodeComponent(%d)=%d but node %d is listed in Subnodes(%d)", u, got, u, comp[u])
					return
				}
			}
		}
	})
	if pv != nil {
		c.fail("scc-panic", "SCCGraph", sizeClass(n), "SCCGraph accessor panicked: %v", simkitStr(pv))
		return
	}
	if c.viol != nil {
		return
	}
	for u := 0; u < n; u++ {
		if comp[u] == -1 {
			c.fail("scc", "SCC", "partition", "node %d is in no component", u)
			return
		}
	}
	// same partition as the reference: comp[u]==comp[v] <=> ref[u]==ref[v]
	rep := make(map[int]int) // ref representative -> cid
	seenCid := make([]bool, nc)
	for u := 0; u < n; u++ {
		cid, ok := rep[ref[u]]
		if !ok {
			if seenCid[comp[u]] {
				c.fail("scc", "SCC", "partition", "component %d joins nodes that do not reach each other (e.g. node %d)", comp[u], u)
				return
			}
			seenCid[comp[u]] = true
			rep[ref[u]] = comp[u]
			continue
		}
		if cid != comp[u] {
			c.fail("scc", "SCC", "partition", "node %d is in component %d but is mutually reachable with nodes of component %d", u, comp[u], cid)
			return
		}
	}
	// reverse topological numbering and component edges
	wantOut := make([]map[int]bool, nc)
	par := 0
	for u, os := range adj {
		for _, v := range os {
			cu, cv := comp[u], comp[v]
			if cu == cv {
				continue
			}
			if cu < cv {
				c.fail("scc", "SCC", "numbering", "edge %d->%d goes from component %d to component %d: not reverse topological order", u, v, cu, cv)
				return
			}
			if wantOut[cu] == nil {
				wantOut[cu] = map[int]bool{}
			}
			if wantOut[cu][cv] {
				par++
			}
			wantOut[cu][cv] = true
		}
	}
	if par > 0 && flagSel == 2 {
		c.probe("scc_parallel_cross_edges_dedup")
	}
	for cid := 0; cid < nc; cid++ {
		if flagSel != 2 {
			if outs[cid] != nil {
				c.fail("scc", "SCC", "edges-without-flag", "Out(%d) is non-nil without SCCEdges", cid)
				return
			}
			continue
		}
		got := outs[cid]
		seen := map[int]bool{}
		for _, o := range got {
			if seen[o] {
				c.fail("scc", "SCC", "edges-dup", "Out(%d)=%v lists component %d twice", cid, head(got), o)
				return
			}
			seen[o] = true
			if !wantOut[cid][o] {
				c.fail("scc", "SCC", "edges-extra", "Out(%d)=%v lists component %d, into which it has no edge", cid, head(got), o)
				return
			}
		}
		if len(got) != len(wantOut[cid]) {
			c.fail("scc", "SCC", "edges-missing", "Out(%d)=%v lists %d components; the component has edges into %d others", cid, head(got), len(got), len(wantOut[cid]))
			return
		}
	}
}

func (c *ctx) simplify(adj refmodel.Adj) {
	n := len(adj)
	weighted := c.g.Chance(1, 2)
	c.logf("SimplifyMulti(weighted=%v)", weighted)
	c.hash.Str(fmt.Sprintf("Simplify%v", weighted))
	c.op("SimplifyMulti")
	var in graph.Graph
	W := make([][]float64, n)
	for u := range adj {
		W[u] = make([]float64, len(adj[u]))
		for e := range W[u] {
			W[u][e] = 1
			if weighted {
				W[u][e] = float64(c.g.Range(-8, 16)) / 4
			}
		}
	}
	if weighted {
		in = &simenv.SimWGraph{SimGraph: simenv.SimGraph{Adj: adj, W: W}}
		if c.g.Chance(1, 4) {
			// the caller wraps a weighted graph in WeightedUnit to ask for edge COUNTS:
			// every edge then weighs 1 whatever the wrapped graph says
			in = graph.WeightedUnit{Graph: in}
			// the wrapped graph keeps its own weights; the expected sums use 1 per edge
			W1 := make([][]float64, len(W))
			for u := range W {
				W1[u] = make([]float64, len(W[u]))
				for e := range W1[u] {
					W1[u][e] = 1
				}
			}
			W = W1
			c.probe("simplify_weightedunit_around_weighted_graph")
		}
	} else {
		in = &simenv.SimGraph{Adj: adj}
	}
	var out graph.Weighted
	if pv := c.try(func() { out = graphalg.SimplifyMulti(in) }); pv != nil {
		c.fail("simplify", "SimplifyMulti", "panic", "SimplifyMulti panicked: %v", simkitStr(pv))
		return
	}
	pv := c.try(func() {
		if out.NumNodes() != n {
			c.fail("simplify", "SimplifyMulti", "nodes", "result has %d nodes, want %d", out.NumNodes(), n)
			return
		}
		for u := 0; u < n; u++ {
			want := map[int]float64{}
			for e, v := range adj[u] {
				want[v] += W[u][e]
			}
			got := out.Out(u)
			if len(got) != len(want) {
				c.fail("simplify", "SimplifyMulti", "merge", "node %d: %d out-edges %v, want %d distinct successors", u, len(got), head(got), len(want))
				return
			}
			seen := map[int]bool{}
			for e, v := range got {
				w, ok := want[v]
				if !ok || seen[v] {
					c.fail("simplify", "SimplifyMulti", "merge", "node %d: successor %d listed twice or not a successor", u, v)
					return
				}
				seen[v] = true
				if gw := out.OutWeight(u, e); gw != w {
					c.fail("simplify", "SimplifyMulti", "weight", "node %d -> %d: weight %v, sum of the parallel edges is %v", u, v, gw, w)
					return
				}
			}
		}
	})
	if pv != nil {
		c.fail("simplify", "SimplifyMulti", "panic", "accessor of the simplified graph panicked: %v", simkitStr(pv))
	}
}

func (c *ctx) subKeep(adj refmodel.Adj) {
	n := len(adj)
	perm := c.g.Perm(n)
	k := c.g.Range(0, n)
	nodes := append([]int(nil), perm[:k]...)
	newOf := map[int]int{}
	for i, u := range nodes {
		newOf[u] = i
	}
	var edges []graph.Edge
	wantOut := make([][]int, k)
	wantOld := make([][]int, k)
	var cand []graph.Edge
	for _, u := range nodes {
		for e, v := range adj[u] {
			if _, ok := newOf[v]; ok {
				cand = append(cand, graph.Edge{Node: u, Edge: e})
			}
		}
	}
	ep := c.g.Perm(len(cand))
	ne := c.g.Range(0, len(cand))
	for _, pi := range ep[:ne] {
		e := cand[pi]
		edges = append(edges, e)
		i := newOf[e.Node]
		wantOut[i] = append(wantOut[i], newOf[adj[e.Node][e.Edge]])
		wantOld[i] = append(wantOld[i], e.Edge)
	}
	c.logf("SubgraphKeep(%d nodes, %d edges)", k, ne)
	c.hash.Str("Keep")
	c.op("SubgraphKeep")
	sg := &simenv.SimGraph{Adj: adj}
	var sub graph.Subgraph
	if pv := c.try(func() { sub = graph.SubgraphKeep(sg, nodes, edges) }); pv != nil {
		c.fail("subgraph", "SubgraphKeep", "panic", "SubgraphKeep panicked: %v", simkitStr(pv))
		return
	}
	// the caller reuses its argument buffers once the call has returned: the
	// subgraph must not depend on them any more
	keptNodes := append([]int(nil), nodes...)
	for i := range nodes {
		nodes[i] = len(adj) - 1 - nodes[i]
	}
	for i := range edges {
		edges[i] = graph.Edge{Node: -1, Edge: -1}
	}
	c.checkSub("SubgraphKeep", sub, sg, keptNodes, wantOut, wantOld)
}

func (c *ctx) subRemove(adj refmodel.Adj) {
	n := len(adj)
	rm := map[int]bool{}
	var nodes []int
	for i := c.g.Range(0, (n+1)/2); i > 0; i-- {
		u := c.g.Intn(n)
		rm[u] = true
		nodes = append(nodes, u) // duplicates allowed
	}
	rmE := map[graph.Edge]bool{}
	var edges []graph.Edge
	for u := range adj {
		for e := range adj[u] {
			if c.g.Chance(1, 5) {
				ed := graph.Edge{Node: u, Edge: e}
				rmE[ed] = true
				edges = append(edges, ed)
			}
		}
	}
	var keep []int
	newOf := map[int]int{}
	for u := 0; u < n; u++ {
		if !rm[u] {
			newOf[u] = len(keep)
			keep = append(keep, u)
		}
	}
	wantOut := make([][]int, len(keep))
	wantOld := make([][]int, len(keep))
	for i, u := range keep {
		for e, v := range adj[u] {
			if rm[v] || rmE[graph.Edge{Node: u, Edge: e}] {
				continue
			}
			wantOut[i] = append(wantOut[i], newOf[v])
			wantOld[i] = append(wantOld[i], e)
		}
	}
	c.logf("SubgraphRemove(%d nodes, %d edges)", len(nodes), len(edges))
	c.hash.Str("Remove")
	c.op("SubgraphRemove")
	if len(edges) > 0 {
		c.probe("edgemap_after_subgraph_remove")
	}
	sg := &simenv.SimGraph{Adj: adj}
	var sub graph.Subgraph
	if pv := c.try(func() { sub = graph.SubgraphRemove(sg, nodes, edges) }); pv != nil {
		c.fail("subgraph", "SubgraphRemove", "panic", "SubgraphRemove panicked: %v", simkitStr(pv))
		return
	}
	for i := range nodes {
		nodes[i] = -7
	}
	for i := range edges {
		edges[i] = graph.Edge{Node: -1, Edge: -1}
	}
	c.checkSub("SubgraphRemove", sub, sg, keep, wantOut, wantOld)
}

func (c *ctx) checkSub(op string, sub graph.Subgraph, under graph.Graph, nodes []int, wantOut, wantOld [][]int) {
	pv := c.try(func() {
		if sub.Underlying() != under {
			c.fail("subgraph", op, "underlying", "Underlying() is not the graph passed in")
			return
		}
		if sub.NumNodes() != len(nodes) {
			c.fail("subgraph", op, "nodes", "subgraph has %d nodes, want %d", sub.NumNodes(), len(nodes))
			return
		}
		nm := sub.NodeMap(func(node int) interface{} { return node*7 + 1 })
		em := sub.EdgeMap(func(node, edge int) interface{} { return [2]int{node, edge} })
		for i := range nodes {
			got := sub.Out(i)
			if !refmodel.SameMultiset(got, wantOut[i]) {
				c.fail("subgraph", op, "out", "Out(%d)=%v, the requested subgraph has %v (node %d of the original)", i, head(got), head(wantOut[i]), nodes[i])
				return
			}
			if g := nm(i); g != nodes[i]*7+1 {
				c.fail("subgraph", op, "nodemap", "NodeMap translates node %d to original %v, want %d", i, g, nodes[i])
				return
			}
			// a result object answers the same when asked again
			if again := sub.Out(i); !refmodel.SameSeq(again, got) {
				c.fail("subgraph", op, "out-second-read", "Out(%d) answered %v, then %v", i, head(got), head(again))
				return
			}
			// the order of a node's edges is not fixed by the statement; what is
			// fixed is that EdgeMap names, for every new edge, an original edge of
			// the same node that was kept, each exactly once, and that the new
			// edge's target is the image of that original edge's target
			used := make([]bool, len(wantOld[i]))
			for e := range got {
				oe, ok := em(i, e).([2]int)
				if !ok || oe[0] != nodes[i] {
					c.fail("subgraph", op, "edgemap", "EdgeMap translates edge %d of node %d to %v, which is not an edge of original node %d", e, i, em(i, e), nodes[i])
					return
				}
				found := false
				for k, old := range wantOld[i] {
					if !used[k] && old == oe[1] && wantOut[i][k] == got[e] {
						used[k], found = true, true
						break
					}
				}
				if !found {
					c.fail("subgraph", op, "edgemap", "EdgeMap translates edge %d of node %d (to new node %d) to original node %d edge %d, which is not a kept edge with that target (kept original edges %v with new targets %v)", e, i, got[e], oe[0], oe[1], head(wantOld[i]), head(wantOut[i]))
					return
				}
			}
		}
	})
	if pv != nil {
		c.fail("subgraph", op, "panic", "accessor of the subgraph panicked: %v", simkitStr(pv))
	}
}

func (c *ctx) bigraph(adj refmodel.Adj) {
	n := len(adj)
	c.logf("MakeBiGraph")
	c.hash.Str("Bi")
	c.op("MakeBiGraph")
	var bg graph.BiGraph
	sg := &simenv.SimGraph{Adj: adj}
	tr := refmodel.Transpose(adj)
	if n > 0 && c.f.Chance(1, 4) {
		// fault: the graph's Out crashes once, at a drawn call, while the
		// transpose is being built (whenever the implementation chooses to
		// build it); the caller recovers and carries on with the same objects.
		sg.CrashAt = 1 + c.f.Intn(n)
		c.fault("graph_out_crash", fmt.Sprintf("Graph.Out panics on call %d during MakeBiGraph / first use", sg.CrashAt))
		pv := c.try(func() {
			bg = graph.MakeBiGraph(sg)
			for u := 0; u < n; u++ {
				bg.In(u)
			}
		})
		if pv != nil {
			if _, ok := pv.(*simenv.Crash); !ok {
				c.fail("bigraph", "MakeBiGraph", "panic", "MakeBiGraph panicked: %v", simkitStr(pv))
				return
			}
			c.probe("callback_crash_propagated")
		}
		if bg != nil {
			// an object was handed out before the crash: it must still be right
			pv := c.try(func() {
				for u := 0; u < n; u++ {
					if !refmodel.SameMultiset(bg.In(u), tr[u]) {
						c.fail("bigraph", "MakeBiGraph", "in-after-crash", "after Graph.Out crashed once (recovered by the caller), In(%d)=%v, transpose of Out is %v", u, head(bg.In(u)), head(tr[u]))
						return
					}
				}
			})
			if pv != nil {
				c.fail("bigraph", "MakeBiGraph", "panic", "In panicked after a recovered crash: %v", simkitStr(pv))
			}
			if c.viol != nil {
				return
			}
		}
		bg = nil
	}
	if pv := c.try(func() { bg = graph.MakeBiGraph(sg) }); pv != nil {
		c.fail("bigraph", "MakeBiGraph", "panic", "MakeBiGraph panicked: %v", simkitStr(pv))
		return
	}
	pv := c.try(func() {
		if bg.NumNodes() != n {
			c.fail("bigraph", "MakeBiGraph", "nodes", "NumNodes()=%d, want %d", bg.NumNodes(), n)
			return
		}
		for u := 0; u < n; u++ {
			if !refmodel.SameMultiset(bg.In(u), tr[u]) {
				c.fail("bigraph", "MakeBiGraph", "in", "In(%d)=%v, transpose of Out is %v", u, head(bg.In(u)), head(tr[u]))
				return
			}
			if !refmodel.SameMultiset(bg.In(u), tr[u]) {
				c.fail("bigraph", "MakeBiGraph", "in-second-read", "In(%d) changed between two reads", u)
				return
			}
			if !refmodel.SameSeq(bg.Out(u), adj[u]) {
				c.fail("bigraph", "MakeBiGraph", "out", "Out(%d) changed", u)
				return
			}
		}
	})
	if pv != nil {
		c.fail("bigraph", "MakeBiGraph", "panic", "accessor panicked: %v", simkitStr(pv))
		return
	}
	// a graph that already is a BiGraph is returned as is
	if c.g.Chance(1, 4) {
		sb := &simenv.SimBiGraph{SimGraph: simenv.SimGraph{Adj: adj}, Preds: tr}
		var r graph.BiGraph
		if pv := c.try(func() { r = graph.MakeBiGraph(sb) }); pv != nil || r != graph.BiGraph(sb) {
			c.fail("bigraph", "MakeBiGraph", "identity", "MakeBiGraph of a BiGraph did not return it (panic=%v)", pv)
		}
	}
}

func (c *ctx) equal(adj refmodel.Adj) {
	n := len(adj)
	other := make(refmodel.Adj, n)
	for u := range adj {
		other[u] = append([]int(nil), adj[u]...)
	}
	variant := c.g.Pick(2, 3, 3, 1, 2, 2, 2)
	want := true
	g1 := adj
	switch variant {
	case 5:
		// the only difference sits in one of the last three nodes (the far end of a
		// possibly very large graph must be compared too)
		u := n - 1 - c.g.Intn(minInt(3, n))
		if len(other[u]) == 0 {
			other[u] = []int{c.g.Intn(n)}
		} else {
			e := c.g.Intn(len(other[u]))
			other[u][e] = (other[u][e] + 1 + c.g.Intn(maxInt(n-1, 1))) % n
		}
		want = refmodel.SameMultiset(adj[u], other[u])
	case 6:
		// equal length, same SET of targets, different multiplicities (and shuffled)
		var cands []int
		for u := range other {
			if len(other[u]) >= 3 {
				cands = append(cands, u)
			}
		}
		if len(cands) == 0 {
			variant = 0
			break
		}
		u := cands[c.g.Intn(len(cands))]
		a, b := c.g.Intn(len(other[u])), c.g.Intn(len(other[u]))
		other[u][a] = other[u][b] // one target replaced by another that is already present
		p := c.g.Perm(len(other[u]))
		src := append([]int(nil), other[u]...)
		for i, pi := range p {
			other[u][i] = src[pi]
		}
		want = refmodel.SameMultiset(adj[u], other[u])
	case 4:
		// two different multisets with equal length, sum, sum of squares (and for
		// the longer pairs sum of cubes): what an order-independent checksum
		// comparison cannot tell apart (Prouhet-Tarry-Escott pairs, shifted)
		pairs := [][2][]int{{{0, 4, 5}, {1, 2, 6}}, {{0, 3, 3}, {1, 1, 4}}, {{0, 4, 7, 11}, {1, 2, 9, 10}}, {{0, 5, 6, 11}, {1, 3, 8, 10}}}
		pr := pairs[c.g.Intn(len(pairs))]
		maxv := pr[1][len(pr[1])-1]
		if pr[0][len(pr[0])-1] > maxv {
			maxv = pr[0][len(pr[0])-1]
		}
		if n <= maxv {
			variant = 0
			break
		}
		k := c.g.Intn(n - maxv)
		u := c.g.Intn(n)
		extra := append([]int(nil), adj[u]...)
		g1 = make(refmodel.Adj, n)
		copy(g1, adj)
		rowA, rowB := append([]int(nil), extra...), append([]int(nil), extra...)
		for i := range pr[0] {
			rowA = append(rowA, pr[0][i]+k)
			rowB = append(rowB, pr[1][i]+k)
		}
		pa, pb := c.g.Perm(len(rowA)), c.g.Perm(len(rowB))
		ra, rb := make([]int, len(rowA)), make([]int, len(rowB))
		for i := range pa {
			ra[i], rb[i] = rowA[pa[i]], rowB[pb[i]]
		}
		g1[u], other[u] = ra, rb
		want = false
		c.probe("equal_lists_with_equal_power_sums")
	case 0: // identical
	case 1: // permuted adjacency lists: equal as multisets
		for u := range other {
			p := c.g.Perm(len(other[u]))
			src := append([]int(nil), other[u]...)
			for i, pi := range p {
				other[u][i] = src[pi]
			}
		}
	case 2: // one list changed (possibly after a permutation)
		var cands []int
		for u := range other {
			if len(other[u]) > 0 {
				cands = append(cands, u)
			}
		}
		if len(cands) == 0 {
			break
		}
		u := cands[c.g.Intn(len(cands))]
		sort.Sort(sort.Reverse(sort.IntSlice(other[u])))
		e := c.g.Intn(len(other[u]))
		switch c.g.Pick(2, 1, 1) {
		case 0:
			other[u][e] = (other[u][e] + 1 + c.g.Intn(n)) % n
		case 1:
			other[u] = append(other[u], other[u][e]) // multiplicity differs
		case 2:
			other[u] = append(other[u][:e], other[u][e+1:]...)
		}
		want = true
		for v := range adj {
			if !refmodel.SameMultiset(adj[v], other[v]) {
				want = false
			}
		}
	case 3:
		other = append(other, nil)
		want = false
	}
	c.logf("Equal(variant=%d) want %v", variant, want)
	c.hash.Str(fmt.Sprintf("Equal%d", variant))
	c.op("Equal")
	var got bool
	if pv := c.try(func() { got = graph.Equal(&simenv.SimGraph{Adj: g1}, &simenv.SimGraph{Adj: other}) }); pv != nil {
		c.fail("equal", "Equal", "panic", "Equal panicked: %v", simkitStr(pv))
		return
	}
	if got != want {
		c.fail("equal", "Equal", fmt.Sprintf("variant%d", variant), "Equal=%v, adjacency lists compared as multisets: %v", got, want)
	}
}

func minInt(a, b int) int {
	if a < b {
		return a
	}
	return b
}

func maxInt(a, b int) int {
	if a > b {
		return a
	}
	return b
}
