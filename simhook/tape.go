// Package simhook is the kernel of the deterministic simulator: the choice
// tape (the single source of every random decision of a run), the seeded
// cooperative scheduler, and the hooks (Y, MapKeys, Lock, EnterAtomic) that
// the instrumenter splices into a scratch copy of the library.
//
// Everything in this file and in sched*.go / baton_*.go is touched only from
// functions marked //go:norace, so that in a -race build the simulator's own
// bookkeeping is invisible to the race detector (see DESIGN.md §3.3, §3.5).
package simhook

// Streams of the tape. They are recorded independently so that deleting a
// scheduling decision never shifts which inputs are generated.
const (
	SWork    = 0 // workload: sizes, values, operation lists
	SSched   = 1 // schedule: gaps and successor tasks
	SFault   = 2 // faults: whether/where a fault fires
	SMap     = 3 // map iteration permutations
	NStreams = 4
)

var StreamNames = [NStreams]string{"work", "sched", "fault", "map"}

// D is one recorded draw: a value V in [0,N).
type D struct {
	N uint64
	V uint64
}

type stream struct {
	rec []D       // generate mode: recorded so far; replay mode: the recording
	eff []D       // replay mode: draws as actually consumed (range requested, value used)
	pos int       // replay mode: next index
	s   [4]uint64 // xoshiro256** state (generate mode)
}

// Tape is the choice tape. The zero value is not usable; use NewGenTape or
// NewReplayTape.
type Tape struct {
	st      [NStreams]stream
	replay  bool
	Overrun [NStreams]int // replay mode: draws requested beyond the recording
}

//go:norace
func splitmix(x *uint64) uint64 {
	*x += 0x9e3779b97f4a7c15
	z := *x
	z = (z ^ (z >> 30)) * 0xbf58476d1ce4e5b9
	z = (z ^ (z >> 27)) * 0x94d049bb133111eb
	return z ^ (z >> 31)
}

//go:norace
func hashString(s string) uint64 {
	h := uint64(0xcbf29ce484222325)
	for i := 0; i < len(s); i++ {
		h ^= uint64(s[i])
		h *= 0x100000001b3
	}
	return h
}

// NewGenTape returns a generating tape that is a pure function of
// (seed, prop, run).
//
//go:norace
func NewGenTape(seed uint64, prop string, run uint64) *Tape {
	t := &Tape{}
	for i := 0; i < NStreams; i++ {
		x := seed*0x9e3779b97f4a7c15 ^ hashString(prop)*0xd6e8feb86659fd93 ^ (run+1)*0xff51afd7ed558ccd ^ uint64(i+1)*0xc4ceb9fe1a85ec53
		for j := 0; j < 4; j++ {
			t.st[i].s[j] = splitmix(&x)
		}
	}
	return t
}

// NewReplayTape returns a tape that replays rec. Values are taken modulo the
// requested range; an exhausted stream yields 0, by construction the simplest
// choice everywhere.
//
//go:norace
func NewReplayTape(rec [NStreams][]D) *Tape {
	t := &Tape{replay: true}
	for i := 0; i < NStreams; i++ {
		t.st[i].rec = rec[i]
	}
	return t
}

//go:norace
func rotl(x uint64, k uint) uint64 { return (x << k) | (x >> (64 - k)) }

//go:norace
func (s *stream) next() uint64 {
	r := rotl(s.s[1]*5, 7) * 9
	t := s.s[1] << 17
	s.s[2] ^= s.s[0]
	s.s[3] ^= s.s[1]
	s.s[1] ^= s.s[2]
	s.s[0] ^= s.s[3]
	s.s[2] ^= t
	s.s[3] = rotl(s.s[3], 45)
	return r
}

// Draw returns a value in [0,n). n must be >= 1.
//
//go:norace
func (t *Tape) Draw(st int, n uint64) uint64 {
	if n == 0 {
		n = 1
	}
	s := &t.st[st]
	if t.replay {
		if s.pos >= len(s.rec) {
			t.Overrun[st]++
			s.pos++
			return 0
		}
		v := s.rec[s.pos].V % n
		s.pos++
		s.eff = append(s.eff, D{n, v})
		return v
	}
	var v uint64
	if n == 1 {
		v = 0
	} else if n&(n-1) == 0 {
		v = s.next() & (n - 1)
	} else {
		// rejection sampling, unbiased
		lim := ^uint64(0) - (^uint64(0) % n)
		for {
			v = s.next()
			if v < lim {
				break
			}
		}
		v %= n
	}
	s.rec = append(s.rec, D{n, v})
	return v
}

// Record returns what has been drawn so far (generate mode) or, in replay
// mode, the effective tape: the values actually consumed, normalised to the
// ranges requested, truncated to what was used.
//
//go:norace
func (t *Tape) Record() [NStreams][]D {
	var out [NStreams][]D
	for i := 0; i < NStreams; i++ {
		s := &t.st[i]
		if t.replay {
			out[i] = append([]D(nil), s.eff...)
		} else {
			out[i] = append([]D(nil), s.rec...)
		}
	}
	return out
}

// Used reports how many draws have been consumed from stream st.
//
//go:norace
func (t *Tape) Used(st int) int {
	if t.replay {
		return t.st[st].pos
	}
	return len(t.st[st].rec)
}

//go:norace
func (t *Tape) IsReplay() bool { return t.replay }
