package simhook

import (
	"runtime"
	"sync"
)

// Scheduling policies (DESIGN.md §3.3).
const (
	PSeq    = 0 // run-to-completion, successor drawn when a task finishes
	PRandom = 1 // decision every ~Gap yields, successor drawn uniformly
	PPCT    = 2 // Burckhardt et al. priority scheduling with D change points
	PStarve = 3 // PRandom + a victim task stalled mid-operation until all others finish
)

var PolicyNames = []string{"seq", "random", "pct", "starve"}

type Policy struct {
	Kind     int
	Gap      uint64 // PRandom/PStarve: gaps are drawn in [1, 2*Gap]
	D        int    // PPCT: number of priority change points
	K        uint64 // PPCT: change points are drawn in [0,K) scheduler steps
	Victim   int    // PStarve: task id
	VictimAt uint64 // PStarve: the victim stalls at its own VictimAt-th yield
	// SyncBias: in addition to the policy's own decisions, every yield point in
	// front of a synchronisation operation (YS: sync, sync/atomic, channels) is a
	// decision point with a uniformly drawn successor. Check-then-act windows
	// between two atomic operations are a single statement wide; this is how the
	// scheduler finds them without hoping that a random gap ends there.
	SyncBias bool
}

type Config struct {
	Tape          *Tape
	Policy        Policy
	RunBudget     uint64 // max yields per run
	OpBudget      uint64 // max yields per operation (reset by BeginOp)
	CanonicalMaps bool   // map ranges iterate in canonical order (no draws)
	// OnSwitch is called on the outgoing task's goroutine immediately before
	// the baton is passed (invariant hook). to is -1 when the task finished.
	OnSwitch func(from, to int)
	// OnYield, if non-nil, is called every YieldEvery-th yield.
	OnYield    func(task int)
	YieldEvery uint64
	TraceCap   int
}

// Switch is one entry of the schedule trace.
type Switch struct {
	Seq  uint64 // global event sequence number (scheduler step) at the switch
	From int
	To   int
	Site uint32
}

type Result struct {
	Steps       uint64
	Switches    uint64
	MidSwitches uint64 // switches taken at a yield point inside library code (not at task end)
	Trace       []Switch
	Hash        uint64 // hash of the (from,to,site) sequence at switch points
	BudgetHit   bool
	Deadlock    bool
	Stalled     bool // PStarve: the victim was actually stalled mid-run
	TaskSteps   []uint64
	MapPerms    uint64 // map ranges executed under a non-canonical permutation
	MapRanges   uint64
	LockSpins   uint64
	AtomicSecs  uint64
	SyncYields  uint64 // decisions taken at synchronisation-operation yield points (SyncBias)
}

// Abort is the panic value raised from a yield point when a budget is
// exhausted or a deadlock is detected.
type Abort struct {
	Reason string
	Site   uint32 // yield site at which the budget ran out (0 if none)
}

func (a *Abort) Error() string { return "simhook abort: " + a.Reason }

// SyncSites is the number of yield sites in front of synchronisation
// operations in the instrumented library (set by the worker from the
// instrumenter report; 0 on a library that uses no sync primitives).
var SyncSites int

// SiteNames, when set by the worker from the instrumenter report, maps a
// site id to file:line for messages.
var SiteNames func(uint32) string

func (a *Abort) Where() string {
	if a.Site == 0 {
		return ""
	}
	if SiteNames != nil {
		return " at " + SiteNames(a.Site)
	}
	return " at site #" + itoa(a.Site)
}

func itoa(n uint32) string {
	if n == 0 {
		return "0"
	}
	var b [12]byte
	i := len(b)
	for n > 0 {
		i--
		b[i] = byte('0' + n%10)
		n /= 10
	}
	return string(b[i:])
}

const (
	stRunnable = 0
	stDone     = 1
	stStalled  = 2
)

type task struct {
	id      int
	fn      func(id int)
	state   int
	steps   uint64
	opSteps uint64
	prio    int
	blocked bool // spinning on a library lock (set by yieldBlocked, cleared when the lock is acquired)
	b       baton
}

type Sim struct {
	cfg           Config
	tape          *Tape
	tasks         []*task
	cur           int
	live          int
	steps         uint64
	switches      uint64
	midSw         uint64
	countdown     uint64
	atomic        int32
	inHook        bool // an invariant hook is running: yield points reached from it are ignored
	trace         []Switch
	hash          uint64
	aborted       bool
	budgetHit     bool
	deadlock      bool
	stalled       bool
	cps           []uint64
	nextCP        int
	lowPrio       int
	mapPerms      uint64
	mapRanges     uint64
	lockSpins     uint64
	atomics       uint64
	yieldCnt      uint64
	blockedRounds int
	syncYields    uint64
	hooksSkipped  uint64
	mainB         baton
	wg            sync.WaitGroup
}

var sim *Sim

const never = ^uint64(0) >> 1

// siteSeen accumulates, per process, which yield sites were reached while a
// simulation was active.
var siteSeen []uint64

//go:norace
func markSite(site uint32) {
	w := int(site >> 6)
	if w >= len(siteSeen) {
		n := make([]uint64, w+64)
		copy(n, siteSeen)
		siteSeen = n
	}
	siteSeen[w] |= 1 << (site & 63)
}

// SitesSeen returns the ids of all yield sites reached so far in this process.
//
//go:norace
func SitesSeen() []uint32 {
	var out []uint32
	for w, bits := range siteSeen {
		for b := 0; b < 64; b++ {
			if bits&(1<<uint(b)) != 0 {
				out = append(out, uint32(w*64+b))
			}
		}
	}
	return out
}

// Y is the yield point spliced before every statement of the library copy.
// With no simulation active it does nothing.
//
//go:norace
func Y(site uint32) {
	if sim != nil {
		slowY(site)
	}
}

// YS is the yield point spliced in front of a statement that performs a
// synchronisation operation.
//
//go:norace
func YS(site uint32) {
	if s := sim; s != nil {
		if s.cfg.Policy.SyncBias && s.atomic == 0 && !s.inHook && !s.aborted && s.cfg.Policy.Kind != PSeq {
			s.syncYields++
			slowY(site)
			if sim == s && !s.aborted {
				if n := s.pickUniform(); n >= 0 && n != s.cur {
					s.switchTo(n, site)
				}
			}
			return
		}
		slowY(site)
	}
}

// pickUniform draws a successor among the runnable, unblocked tasks with the
// current task first (draw 0 = stay), whatever the policy.
//
//go:norace
func (s *Sim) pickUniform() int {
	var cands [64]int
	nc := 0
	cur := s.tasks[s.cur]
	if cur.state == stRunnable {
		cands[nc] = cur.id
		nc++
	}
	for _, t := range s.tasks {
		if t.id != s.cur && t.state == stRunnable && !t.blocked && nc < len(cands) {
			cands[nc] = t.id
			nc++
		}
	}
	if nc <= 1 {
		return -1
	}
	return cands[s.tape.Draw(SSched, uint64(nc))]
}

//go:norace
func slowY(site uint32) {
	s := sim
	if s == nil || s.atomic > 0 || s.inHook {
		return
	}
	t := s.tasks[s.cur]
	s.steps++
	t.steps++
	t.opSteps++
	markSite(site)
	if s.aborted {
		panic(&Abort{"run aborted", 0})
	}
	if s.steps > s.cfg.RunBudget {
		// the run as a whole has been long enough: the harness stops issuing
		// operations (OverBudget), but the operation in progress is never
		// interrupted for this - only its own budget can do that, so that "no
		// progress within N steps" always refers to a single operation
		s.budgetHit = true
	}
	if t.opSteps > s.cfg.OpBudget {
		s.budgetHit = true
		t.opSteps = 0
		panic(&Abort{"operation step budget exhausted", site})
	}
	if s.cfg.OnYield != nil {
		s.yieldCnt++
		if s.yieldCnt >= s.cfg.YieldEvery {
			s.yieldCnt = 0
			s.hookYield(t.id)
		}
	}
	if s.cfg.Policy.Kind == PStarve && !s.stalled && t.id == s.cfg.Policy.Victim && t.steps >= s.cfg.Policy.VictimAt {
		if next := s.otherRunnable(t.id); next >= 0 {
			s.stalled = true
			t.state = stStalled
			s.switchTo(s.pick(true), site)
			return
		}
	}
	if s.cfg.Policy.Kind == PPCT {
		if s.nextCP < len(s.cps) && s.steps >= s.cps[s.nextCP] {
			s.nextCP++
			t.prio = s.lowPrio
			s.lowPrio--
			if n := s.pick(false); n != s.cur {
				s.switchTo(n, site)
			}
		}
		return
	}
	s.countdown--
	if s.countdown > 0 {
		return
	}
	s.decide(site)
}

//go:norace
func (s *Sim) otherRunnable(id int) int {
	for _, t := range s.tasks {
		if t.id != id && t.state == stRunnable {
			return t.id
		}
	}
	return -1
}

// decide is a PRandom/PStarve decision point: draw the successor and the gap
// to the next decision.
//
//go:norace
func (s *Sim) decide(site uint32) {
	if s.cfg.Policy.Kind == PSeq {
		s.countdown = never
		return
	}
	n := s.pick(false)
	s.newGap()
	if n != s.cur {
		s.switchTo(n, site)
	}
}

//go:norace
func (s *Sim) newGap() {
	g := s.cfg.Policy.Gap
	if g == 0 {
		g = 1
	}
	// value 0 (the simplest choice) maps to the longest gap
	s.countdown = 1 + (2*g - 1 - s.tape.Draw(SSched, 2*g))
}

// pick chooses the successor. Candidates are the current task first (unless
// excludeCur), then the other runnable tasks in id order, so that draw 0 means
// "do not switch".
//
//go:norace
func (s *Sim) pick(excludeCur bool) int {
	// tasks spinning on a library lock are passed over while any other task
	// can run (otherwise two blocked high-priority tasks can hand the baton to
	// each other forever while the lock holder starves)
	n := s.pickFrom(excludeCur, false)
	if n < 0 {
		n = s.pickFrom(excludeCur, true)
	}
	return n
}

//go:norace
func eligible(t *task, allowBlocked bool) bool {
	return t.state == stRunnable && (allowBlocked || !t.blocked)
}

//go:norace
func (s *Sim) pickFrom(excludeCur, allowBlocked bool) int {
	cur := s.tasks[s.cur]
	if s.cfg.Policy.Kind == PPCT {
		best := -1
		for _, t := range s.tasks {
			if !eligible(t, allowBlocked) || (excludeCur && t.id == s.cur) {
				continue
			}
			if best < 0 || t.prio > s.tasks[best].prio {
				best = t.id
			}
		}
		return best
	}
	var cands [64]int
	nc := 0
	if !excludeCur && eligible(cur, allowBlocked) {
		cands[nc] = cur.id
		nc++
	}
	for _, t := range s.tasks {
		if t.id != s.cur && eligible(t, allowBlocked) && nc < len(cands) {
			cands[nc] = t.id
			nc++
		}
	}
	if nc == 0 {
		return -1
	}
	if nc == 1 {
		return cands[0]
	}
	return cands[s.tape.Draw(SSched, uint64(nc))]
}

//go:norace
func (s *Sim) switchTo(next int, site uint32) {
	if s.cfg.OnSwitch != nil {
		s.hookSwitch(s.cur, next)
	}
	s.switches++
	if site != 0 {
		s.midSw++
	}
	if len(s.trace) < s.cfg.TraceCap {
		s.trace = append(s.trace, Switch{s.steps, s.cur, next, site})
	}
	s.hash = (s.hash ^ (uint64(s.cur)<<40 | uint64(next)<<32 | uint64(site))) * 0x100000001b3
	prev := s.tasks[s.cur]
	s.cur = next
	s.tasks[next].b.wake()
	prev.b.park()
}

// finish is called on a task's goroutine when its function has returned.
//
//go:norace
func (s *Sim) finish(t *task) {
	t.state = stDone
	s.live--
	if s.cfg.OnSwitch != nil {
		s.hookSwitch(t.id, -1)
	}
	if s.live == 0 {
		s.mainB.wake()
		return
	}
	next := s.pick(true)
	if next < 0 {
		// only stalled tasks remain: release the victim
		for _, o := range s.tasks {
			if o.state == stStalled {
				o.state = stRunnable
			}
		}
		next = s.pick(true)
	}
	if s.cfg.Policy.Kind == PRandom || s.cfg.Policy.Kind == PStarve {
		s.newGap()
	}
	s.switches++
	if len(s.trace) < s.cfg.TraceCap {
		s.trace = append(s.trace, Switch{s.steps, t.id, next, 0})
	}
	s.hash = (s.hash ^ (uint64(t.id)<<40 | uint64(next)<<32 | 0xffffffff)) * 0x100000001b3
	s.cur = next
	s.tasks[next].b.wake()
}

//go:norace
func taskMain(s *Sim, t *task) {
	t.b.park()
	t.fn(t.id)
	s.finish(t)
	s.wg.Done()
}

// Run executes fns as simulated tasks under cfg and returns when all have
// finished. Exactly one task runs at any time; every choice comes from
// cfg.Tape.
//
//go:norace
func Run(cfg Config, fns []func(id int)) Result {
	if sim != nil {
		panic("simhook.Run: nested simulation")
	}
	if cfg.RunBudget == 0 {
		cfg.RunBudget = 4000000
	}
	if cfg.OpBudget == 0 {
		cfg.OpBudget = cfg.RunBudget
	}
	if cfg.YieldEvery == 0 {
		cfg.YieldEvery = 64
	}
	s := &Sim{cfg: cfg, tape: cfg.Tape, hash: 0xcbf29ce484222325}
	s.mainB.init()
	for i, fn := range fns {
		t := &task{id: i, fn: fn}
		t.b.init()
		s.tasks = append(s.tasks, t)
	}
	s.live = len(fns)
	if s.live == 0 {
		return Result{}
	}
	switch cfg.Policy.Kind {
	case PSeq:
		s.countdown = never
	case PRandom, PStarve:
		s.newGap()
	case PPCT:
		// distinct priorities: a drawn permutation (draw 0 = identity, task 0 highest)
		n := len(fns)
		perm := make([]int, n)
		for i := range perm {
			perm[i] = i
		}
		for i := n - 1; i > 0; i-- {
			j := i - int(s.tape.Draw(SSched, uint64(i+1)))
			perm[i], perm[j] = perm[j], perm[i]
		}
		for rank, id := range perm {
			s.tasks[id].prio = n - rank
		}
		s.lowPrio = 0
		k := cfg.Policy.K
		if k == 0 {
			k = 1
		}
		for i := 0; i < cfg.Policy.D; i++ {
			s.cps = append(s.cps, 1+s.tape.Draw(SSched, k))
		}
		// insertion sort (no package sort: keep the kernel free of instrumented callees)
		for i := 1; i < len(s.cps); i++ {
			for j := i; j > 0 && s.cps[j] < s.cps[j-1]; j-- {
				s.cps[j], s.cps[j-1] = s.cps[j-1], s.cps[j]
			}
		}
		s.countdown = never
	}
	s.wg.Add(len(fns))
	for _, t := range s.tasks {
		go taskMain(s, t)
	}
	// first task
	s.cur = 0
	first := s.pickFirst()
	s.cur = first
	sim = s
	s.tasks[first].b.wake()
	s.mainB.park()
	sim = nil
	s.wg.Wait()
	r := Result{Steps: s.steps, Switches: s.switches, MidSwitches: s.midSw, Trace: s.trace, Hash: s.hash,
		BudgetHit: s.budgetHit, Deadlock: s.deadlock, Stalled: s.stalled,
		MapPerms: s.mapPerms, MapRanges: s.mapRanges, LockSpins: s.lockSpins, AtomicSecs: s.atomics, SyncYields: s.syncYields}
	for _, t := range s.tasks {
		r.TaskSteps = append(r.TaskSteps, t.steps)
	}
	return r
}

//go:norace
func (s *Sim) pickFirst() int {
	if s.cfg.Policy.Kind == PPCT {
		return s.pick(false)
	}
	n := uint64(len(s.tasks))
	if n == 1 {
		return 0
	}
	return int(s.tape.Draw(SSched, n))
}

// ---- hooks used by the harness from inside a task ----

// Active reports whether a simulation is running.
//
//go:norace
func Active() bool { return sim != nil }

// Seq returns the global event sequence number (scheduler steps so far).
//
//go:norace
func Seq() uint64 {
	if s := sim; s != nil {
		return s.steps
	}
	return 0
}

// Cur returns the id of the running task, or -1.
//
//go:norace
func Cur() int {
	if s := sim; s != nil {
		return s.cur
	}
	return -1
}

// OverBudget reports whether the run has used up its step budget: harnesses
// check it between operations and stop issuing new ones.
//
//go:norace
func OverBudget() bool {
	if s := sim; s != nil {
		return s.budgetHit
	}
	return false
}

// BeginOp resets the running task's per-operation step budget.
//
//go:norace
func BeginOp() {
	if s := sim; s != nil {
		s.tasks[s.cur].opSteps = 0
	}
}

// TaskSteps returns the running task's own yield count.
//
//go:norace
func TaskSteps() uint64 {
	if s := sim; s != nil {
		return s.tasks[s.cur].steps
	}
	return 0
}

// ---- hooks spliced into the library copy ----

// Lock acquires a library mutex cooperatively: try is the mutex's TryLock (or
// TryRLock) method value. A blocked task yields to another runnable task
// instead of blocking the only running goroutine.
func Lock(try func() bool) {
	spun := false
	for !try() {
		if inHook() {
			// an invariant hook reached library code that needs a lock held by a
			// parked task: the object is in the middle of an update by that task and
			// cannot be inspected now. The hook evaluation is abandoned (runHook
			// recovers this), never a task switch from inside a hook.
			panic(hookBlocked{})
		}
		spun = true
		yieldBlocked()
	}
	if spun {
		unblock()
	}
}

type hookBlocked struct{}

//go:norace
func inHook() bool {
	s := sim
	return s != nil && s.inHook
}

// Invariant hooks run with yield points disabled; a hook that runs into a held
// library lock is abandoned. No closures here: a func literal inside a
// //go:norace function is a separate, instrumented function.
//
//go:norace
func (s *Sim) hookSwitch(from, to int) {
	s.inHook = true
	defer s.endHook()
	s.cfg.OnSwitch(from, to)
}

//go:norace
func (s *Sim) hookYield(task int) {
	s.inHook = true
	defer s.endHook()
	s.cfg.OnYield(task)
}

//go:norace
func (s *Sim) endHook() {
	s.inHook = false
	if r := recover(); r != nil {
		if _, ok := r.(hookBlocked); !ok {
			panic(r)
		}
		s.hooksSkipped++
	}
}

//go:norace
func unblock() {
	if s := sim; s != nil {
		s.tasks[s.cur].blocked = false
		s.blockedRounds = 0
	}
}

//go:norace
func yieldBlocked() {
	s := sim
	if s == nil || s.atomic > 0 {
		runtime.Gosched()
		return
	}
	t := s.tasks[s.cur]
	s.steps++
	t.steps++
	t.opSteps++
	s.lockSpins++
	t.blocked = true
	if s.aborted {
		panic(&Abort{"run aborted", 0})
	}
	if s.steps > s.cfg.RunBudget || t.opSteps > s.cfg.OpBudget {
		s.aborted = true
		s.budgetHit = true
		panic(&Abort{"step budget exhausted while waiting for a lock", 0})
	}
	next := s.pickFrom(true, false)
	if next < 0 {
		// every other runnable task is itself spinning on a lock
		next = s.pickFrom(true, true)
		s.blockedRounds++
		if next >= 0 && s.blockedRounds > 8*len(s.tasks)+8 {
			next = -1
			for _, o := range s.tasks {
				if o.state == stStalled {
					next = -2
				}
			}
			if next == -1 {
				s.aborted = true
				s.deadlock = true
				panic(&Abort{"deadlock: every runnable task is blocked on a library lock", 0})
			}
			next = -1
		}
	} else {
		s.blockedRounds = 0
	}
	if next < 0 {
		// nobody else can run: release a stalled victim if there is one
		for _, o := range s.tasks {
			if o.state == stStalled {
				o.state = stRunnable
				next = o.id
				break
			}
		}
	}
	if next < 0 {
		s.aborted = true
		s.deadlock = true
		panic(&Abort{"deadlock: task blocked on a lock and no other task is runnable", 0})
	}
	s.switchTo(next, 0)
}

// EnterAtomic/ExitAtomic bracket library functions that use goroutines,
// channels, select, WaitGroup, Cond or Once: no task switch happens inside.
//
//go:norace
func EnterAtomic() {
	if s := sim; s != nil {
		s.atomic++
		s.atomics++
	}
}

//go:norace
func ExitAtomic() {
	if s := sim; s != nil {
		s.atomic--
	}
}

// mapPerm returns, for a map range over n keys, the permutation to apply to
// the canonical key order; nil means canonical order.
//
//go:norace
func mapPerm(n int) []int {
	s := sim
	if s == nil || s.atomic > 0 {
		return nil
	}
	s.mapRanges++
	if s.cfg.CanonicalMaps || n < 2 {
		return nil
	}
	perm := make([]int, n)
	for i := range perm {
		perm[i] = i
	}
	moved := false
	for i := n - 1; i > 0; i-- {
		j := i - int(s.tape.Draw(SMap, uint64(i+1)))
		if j != i {
			moved = true
		}
		perm[i], perm[j] = perm[j], perm[i]
	}
	if moved {
		s.mapPerms++
	}
	return perm
}
