module verif.local/simhook

go 1.22
