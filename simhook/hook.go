package simhook

import (
	"encoding/binary"
	"math"
	"reflect"
	"sort"
)

// MapKeys returns the keys of m in the order the simulator chooses: canonical
// order (sorted) permuted by a permutation drawn from the tape. Go leaves map
// iteration order unspecified, so any order is a legal execution; the
// simulator chooses it and can replay it. With no simulation active the order
// is canonical.
//
// MapKeys itself is instrumented by the race detector (it reads the library's
// map); only the permutation draw is simulator state.
func MapKeys[K comparable, V any](m map[K]V) []K {
	keys := make([]K, 0, len(m))
	for k := range m {
		keys = append(keys, k)
	}
	canonSort(keys)
	if p := mapPerm(len(keys)); p != nil {
		out := make([]K, len(keys))
		for i, j := range p {
			out[i] = keys[j]
		}
		return out
	}
	return keys
}

func canonSort[K comparable](keys []K) {
	switch ks := any(keys).(type) {
	case []int:
		sort.Ints(ks)
		return
	case []string:
		sort.Strings(ks)
		return
	case []float64:
		sort.Float64s(ks)
		return
	}
	enc := make([]string, len(keys))
	for i, k := range keys {
		enc[i] = string(encodeKey(nil, reflect.ValueOf(k)))
	}
	sort.Sort(&byEnc[K]{keys, enc})
}

type byEnc[K any] struct {
	keys []K
	enc  []string
}

func (b *byEnc[K]) Len() int           { return len(b.keys) }
func (b *byEnc[K]) Less(i, j int) bool { return b.enc[i] < b.enc[j] }
func (b *byEnc[K]) Swap(i, j int) {
	b.keys[i], b.keys[j] = b.keys[j], b.keys[i]
	b.enc[i], b.enc[j] = b.enc[j], b.enc[i]
}

// encodeKey appends an order-preserving byte encoding of v (lexicographic over
// struct fields / array elements). Only kinds the instrumenter admits as
// "ownable" key types reach here.
func encodeKey(buf []byte, v reflect.Value) []byte {
	switch v.Kind() {
	case reflect.Bool:
		if v.Bool() {
			return append(buf, 1)
		}
		return append(buf, 0)
	case reflect.Int, reflect.Int8, reflect.Int16, reflect.Int32, reflect.Int64:
		return binary.BigEndian.AppendUint64(buf, uint64(v.Int())^(1<<63))
	case reflect.Uint, reflect.Uint8, reflect.Uint16, reflect.Uint32, reflect.Uint64, reflect.Uintptr:
		return binary.BigEndian.AppendUint64(buf, v.Uint())
	case reflect.Float32, reflect.Float64:
		b := math.Float64bits(v.Float())
		if b>>63 != 0 {
			b = ^b
		} else {
			b |= 1 << 63
		}
		return binary.BigEndian.AppendUint64(buf, b)
	case reflect.String:
		s := v.String()
		for i := 0; i < len(s); i++ {
			if s[i] == 0 {
				buf = append(buf, 0, 1)
			} else {
				buf = append(buf, s[i])
			}
		}
		return append(buf, 0, 0)
	case reflect.Struct:
		for i := 0; i < v.NumField(); i++ {
			buf = encodeKey(buf, v.Field(i))
		}
		return buf
	case reflect.Array:
		for i := 0; i < v.Len(); i++ {
			buf = encodeKey(buf, v.Index(i))
		}
		return buf
	}
	panic("simhook.MapKeys: key kind " + v.Kind().String() + " has no canonical order (instrumenter should not have rewritten this range)")
}
