//go:build !race

package simhook

// baton (plain build): park/unpark over a channel.
type baton struct{ c chan struct{} }

func (b *baton) init() { b.c = make(chan struct{}, 1) }
func (b *baton) wake() { b.c <- struct{}{} }
func (b *baton) park() { <-b.c }

// RaceBuild reports whether this binary was built with -race.
const RaceBuild = false
