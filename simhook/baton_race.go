//go:build race

package simhook

import (
	"syscall"
	"unsafe"
)

// baton (race build): park/unpark over a raw futex issued from //go:norace
// functions. The race detector does not model the futex, so it sees no
// happens-before edge between tasks beyond what the code under test itself
// establishes, while the execution stays strictly serialised (DESIGN.md §3.5).
type baton struct {
	w uint32
	_ [60]byte // keep batons on separate cache lines
}

const (
	futexWaitPrivate = 0 | 128
	futexWakePrivate = 1 | 128
)

//go:norace
func (b *baton) init() { b.w = 0 }

//go:norace
func (b *baton) wake() {
	b.w = 1
	syscall.Syscall6(syscall.SYS_FUTEX, uintptr(unsafe.Pointer(&b.w)), futexWakePrivate, 1, 0, 0, 0)
}

//go:norace
func (b *baton) park() {
	for loadWord(&b.w) == 0 {
		syscall.Syscall6(syscall.SYS_FUTEX, uintptr(unsafe.Pointer(&b.w)), futexWaitPrivate, 0, 0, 0, 0)
	}
	b.w = 0
}

//go:norace
//go:noinline
func loadWord(p *uint32) uint32 { return *p }

// RaceBuild reports whether this binary was built with -race.
const RaceBuild = true
