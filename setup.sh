#!/bin/sh
# Builds the framework from files on disk only (offline).
set -e
cd "$(dirname "$0")"
export GOFLAGS=-mod=mod GOPROXY=off GOSUMDB=off GOTOOLCHAIN=local
mkdir -p bin evidence replays
(cd tools && go build -trimpath -o ../bin/instrument ./cmd/instrument && go build -trimpath -o ../bin/verifctl ./cmd/verifctl)
# pre-warm the build cache (plain and -race standard library, gonum, the harness)
# by building one scratch tree; failures here are not fatal for setup.
./bin/verifctl prepare >/tmp/verif-setup-scratch.$$ 2>/dev/null && rm -rf "$(cat /tmp/verif-setup-scratch.$$)" || true
rm -f /tmp/verif-setup-scratch.$$
echo "setup ok"
