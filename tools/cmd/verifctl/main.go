// Command verifctl is the driver of the deterministic-simulation checks:
//
//	verifctl check <id> [--tier quick|thorough]   copy /repo -> instrument -> build -> fan out workers -> collect -> evidence
//	verifctl replay <path>                        rebuild from the current /repo and re-execute a replay file
//	verifctl selftest determinism [ids...]        same seed twice, many processes, several GOMAXPROCS: digests must agree
//	verifctl prepare                              (development) build a scratch tree and print its path
//
// Exit codes: 0 property held on everything explored; 1 violation (a line
// "VIOLATION property=<id> replay=<path>" is printed); 2 anything that is not a
// verdict (tree does not build, harness does not compile, watchdog).
package main

import (
	"bufio"
	"bytes"
	"crypto/sha256"
	"encoding/binary"
	"encoding/json"
	"fmt"
	"io"
	"io/fs"
	"os"
	"os/exec"
	"os/signal"
	"path/filepath"
	"regexp"
	"runtime"
	"sort"
	"strconv"
	"strings"
	"sync"
	"syscall"
	"time"
)

var (
	verifDir = envOr("VERIF_DIR", "/verif")
	repoDir  = envOr("VERIF_REPO", "/repo")
	// outDir receives evidence/ and replays/. It is /verif except when a check is
	// pointed at a scratch worktree (seeded/run_all.sh), whose results must not
	// overwrite the evidence of the registered checks.
	outDir = envOr("VERIF_OUT", verifDir)
)

func envOr(k, d string) string {
	if v := os.Getenv(k); v != "" {
		return v
	}
	return d
}

func goEnv() []string {
	env := os.Environ()
	out := env[:0:0]
	for _, e := range env {
		if strings.HasPrefix(e, "GOFLAGS=") || strings.HasPrefix(e, "GOPROXY=") || strings.HasPrefix(e, "GOSUMDB=") ||
			strings.HasPrefix(e, "GOTOOLCHAIN=") || strings.HasPrefix(e, "GORACE=") || strings.HasPrefix(e, "GOMAXPROCS=") {
			continue
		}
		out = append(out, e)
	}
	return append(out, "GOFLAGS=-mod=mod", "GOPROXY=off", "GOSUMDB=off", "GOTOOLCHAIN=local")
}

func die(code int, format string, a ...any) {
	fmt.Fprintf(os.Stderr, "verifctl: "+format+"\n", a...)
	cleanup()
	os.Exit(code)
}

var (
	cleanupMu   sync.Mutex
	cleanupDirs []string
	keepScratch bool
)

func cleanup() {
	cleanupMu.Lock()
	defer cleanupMu.Unlock()
	if keepScratch {
		return
	}
	for _, d := range cleanupDirs {
		os.RemoveAll(d)
	}
	cleanupDirs = nil
}

func main() {
	if len(os.Args) < 2 {
		fmt.Fprintln(os.Stderr, "usage: verifctl check|replay|selftest|prepare ...")
		os.Exit(2)
	}
	sigc := make(chan os.Signal, 1)
	signal.Notify(sigc, syscall.SIGINT, syscall.SIGTERM)
	go func() {
		<-sigc
		killChildren()
		cleanup()
		os.Exit(2)
	}()
	switch os.Args[1] {
	case "check":
		os.Exit(cmdCheck(os.Args[2:]))
	case "replay":
		os.Exit(cmdReplay(os.Args[2:]))
	case "selftest":
		os.Exit(cmdSelftest(os.Args[2:]))
	case "prepare":
		keepScratch = true
		sc := prepare("dev", true)
		fmt.Println(sc.dir)
	default:
		fmt.Fprintln(os.Stderr, "unknown subcommand", os.Args[1])
		os.Exit(2)
	}
}

// ---------------------------------------------------------------------------
// scratch tree

type scratch struct {
	dir        string
	worker     string
	workerRace string
	report     instrReport
	treeDigest string
	buildS     float64
}

type instrReport struct {
	Sites []struct {
		ID   int    `json:"id"`
		File string `json:"file"`
		Line int    `json:"line"`
		Func string `json:"func"`
	} `json:"sites"`
	NSites           int      `json:"nsites"`
	Files            int      `json:"files"`
	MapRanges        []string `json:"map_ranges_rewritten"`
	MapRangesUnowned []string `json:"map_ranges_unowned"`
	LockRewrites     []string `json:"lock_rewrites"`
	LocksUnowned     []string `json:"locks_unowned"`
	AtomicFuncs      []string `json:"atomic_funcs"`
	GoStmts          int      `json:"go_stmts"`
	SyncSites        []string `json:"sync_sites"`
	API              []struct {
		Name      string `json:"name"`
		Sig       string `json:"sig"`
		Aggregate bool   `json:"aggregate"`
	} `json:"api"`
	PkgVars []string `json:"package_vars"`
}

func copyTree(src, dst string, skip func(rel string, d fs.DirEntry) bool) error {
	return filepath.WalkDir(src, func(path string, d fs.DirEntry, err error) error {
		if err != nil {
			return err
		}
		rel, _ := filepath.Rel(src, path)
		if rel != "." && skip != nil && skip(rel, d) {
			if d.IsDir() {
				return filepath.SkipDir
			}
			return nil
		}
		target := filepath.Join(dst, rel)
		if d.IsDir() {
			return os.MkdirAll(target, 0o755)
		}
		if !d.Type().IsRegular() {
			return nil
		}
		in, err := os.Open(path)
		if err != nil {
			return err
		}
		defer in.Close()
		out, err := os.Create(target)
		if err != nil {
			return err
		}
		defer out.Close()
		_, err = io.Copy(out, in)
		return err
	})
}

func run(dir string, env []string, name string, args ...string) (string, error) {
	cmd := exec.Command(name, args...)
	cmd.Dir = dir
	cmd.Env = env
	var buf bytes.Buffer
	cmd.Stdout = &buf
	cmd.Stderr = &buf
	err := cmd.Run()
	return buf.String(), err
}

// prepare copies /repo's working tree, instruments the copy and builds the
// worker(s) against it. Anything that goes wrong here is exit 2.
func prepare(tag string, race bool) *scratch {
	t0 := time.Now()
	dir, err := os.MkdirTemp("", "verif-"+tag+"-")
	if err != nil {
		die(2, "mktemp: %v", err)
	}
	cleanupMu.Lock()
	cleanupDirs = append(cleanupDirs, dir)
	cleanupMu.Unlock()
	sc := &scratch{dir: dir}
	if err := copyTree(repoDir, filepath.Join(dir, "repo"), func(rel string, d fs.DirEntry) bool {
		return rel == ".git"
	}); err != nil {
		die(2, "copy %s: %v", repoDir, err)
	}
	sc.treeDigest = digestTree(filepath.Join(dir, "repo"))
	for _, m := range []string{"simhook", "harness"} {
		if err := copyTree(filepath.Join(verifDir, m), filepath.Join(dir, m), nil); err != nil {
			die(2, "copy %s: %v", m, err)
		}
	}
	if b, err := os.ReadFile(filepath.Join(dir, "repo", "go.sum")); err == nil {
		os.WriteFile(filepath.Join(dir, "harness", "go.sum"), b, 0o644)
	}
	env := goEnv()
	out, err := run(dir, env, filepath.Join(verifDir, "bin", "instrument"), "-dir", filepath.Join(dir, "repo"), "-out", filepath.Join(dir, "report.json"))
	if err != nil {
		die(2, "instrumenting the copy of %s failed (does the tree build?):\n%s", repoDir, out)
	}
	b, err := os.ReadFile(filepath.Join(dir, "report.json"))
	if err != nil || json.Unmarshal(b, &sc.report) != nil {
		die(2, "instrumenter report unreadable: %v", err)
	}
	sc.worker = filepath.Join(dir, "worker")
	out, err = run(filepath.Join(dir, "harness"), env, "go", "build", "-trimpath", "-o", sc.worker, "./cmd/worker")
	if err != nil {
		die(2, "building the harness against the instrumented copy failed:\n%s", out)
	}
	if race {
		sc.workerRace = filepath.Join(dir, "worker-race")
		out, err = run(filepath.Join(dir, "harness"), env, "go", "build", "-race", "-trimpath", "-o", sc.workerRace, "./cmd/worker")
		if err != nil {
			die(2, "building the -race harness failed:\n%s", out)
		}
	}
	sc.buildS = time.Since(t0).Seconds()
	return sc
}

func digestTree(root string) string {
	h := sha256.New()
	var files []string
	filepath.WalkDir(root, func(path string, d fs.DirEntry, err error) error {
		if err == nil && d.Type().IsRegular() && strings.HasSuffix(path, ".go") && !strings.HasSuffix(path, "_test.go") {
			files = append(files, path)
		}
		return nil
	})
	sort.Strings(files)
	for _, f := range files {
		rel, _ := filepath.Rel(root, f)
		b, _ := os.ReadFile(f)
		fmt.Fprintf(h, "%s %d\n", rel, len(b))
		h.Write(b)
	}
	return fmt.Sprintf("%x", h.Sum(nil))[:16]
}

// ---------------------------------------------------------------------------
// child processes under a watchdog

var (
	childMu  sync.Mutex
	children = map[*exec.Cmd]bool{}
)

func killChildren() {
	childMu.Lock()
	defer childMu.Unlock()
	for c := range children {
		if c.Process != nil {
			syscall.Kill(-c.Process.Pid, syscall.SIGKILL)
		}
	}
}

type procResult struct {
	out      string
	err      error
	timedOut bool
}

// runWorker runs a worker process with an address-space limit and a wall-clock
// watchdog.
func runWorker(bin string, extraEnv []string, timeout time.Duration, memKB int64, args ...string) procResult {
	sh := fmt.Sprintf("ulimit -v %d 2>/dev/null; exec \"$0\" \"$@\"", memKB)
	cmd := exec.Command("sh", append([]string{"-c", sh, bin}, args...)...)
	cmd.Env = append(os.Environ(), extraEnv...)
	cmd.SysProcAttr = &syscall.SysProcAttr{Setpgid: true}
	var buf bytes.Buffer
	cmd.Stdout = &buf
	cmd.Stderr = &buf
	if err := cmd.Start(); err != nil {
		return procResult{err: err}
	}
	childMu.Lock()
	children[cmd] = true
	childMu.Unlock()
	done := make(chan error, 1)
	go func() { done <- cmd.Wait() }()
	var res procResult
	select {
	case err := <-done:
		res.err = err
	case <-time.After(timeout):
		syscall.Kill(-cmd.Process.Pid, syscall.SIGKILL)
		<-done
		res.timedOut = true
		res.err = fmt.Errorf("watchdog: killed after %v", timeout)
	}
	childMu.Lock()
	delete(children, cmd)
	childMu.Unlock()
	res.out = buf.String()
	return res
}

// ---------------------------------------------------------------------------
// worker records (mirrors harness/cmd/worker)

type draw struct {
	N uint64
	V uint64
}
type tape [4][]draw

type violation struct {
	Property string `json:"property"`
	Oracle   string `json:"oracle_id"`
	Op       string `json:"op"`
	Seq      uint64 `json:"seq"`
	Message  string `json:"message"`
	Sig      string `json:"signature,omitempty"`
}

type violationRec struct {
	Type       string          `json:"type"`
	Run        uint64          `json:"run"`
	Violation  *violation      `json:"violation"`
	Class      string          `json:"class"`
	Tape       tape            `json:"tape"`
	OrigTape   tape            `json:"orig_tape"`
	Shrink     json.RawMessage `json:"shrink"`
	History    []string        `json:"history"`
	SchedTrace []struct {
		Seq  uint64
		From int
		To   int
		Site uint32
	} `json:"schedule_trace"`
	FaultTrace []string       `json:"fault_trace"`
	Policy     string         `json:"policy"`
	Steps      uint64         `json:"steps"`
	Digest     string         `json:"digest"`
	Race       bool           `json:"race_build"`
	Extra      map[string]any `json:"extra,omitempty"`
	Seed       uint64         `json:"worker_seed"`
	Start      uint64         `json:"worker_start"`
	Stride     uint64         `json:"worker_stride"`
	Procs      int            `json:"worker_gomaxprocs"`
}

type summaryRec struct {
	Type            string           `json:"type"`
	Prop            string           `json:"prop"`
	Runs            uint64           `json:"runs"`
	Truncated       bool             `json:"truncated"`
	Violations      int              `json:"violations"`
	Steps           uint64           `json:"steps"`
	Switches        uint64           `json:"switches"`
	Probes          map[string]int64 `json:"probes"`
	Faults          map[string]int64 `json:"faults"`
	Policies        map[string]int64 `json:"policies"`
	Ops             map[string]int64 `json:"ops"`
	MaxErrOverBound float64          `json:"max_error_over_bound"`
	MaxErrWhere     string           `json:"max_error_where"`
	SitesSeen       []uint32         `json:"sites_seen"`
	Samples         []map[string]any `json:"samples"`
	HashFile        string           `json:"hash_file"`
	WallS           float64          `json:"wall_s"`
	Race            bool             `json:"race_build"`
	BudgetHits      uint64           `json:"budget_hits"`
	Digest          string           `json:"digest"`
}

type meta struct {
	Rule           string
	Real           []string
	Stub           []string
	Assumptions    []string
	FaultKinds     []string
	NotApplicable  []string
	RunsQuick      int
	RunsThorough   int
	RaceRunsQuick  int
	RaceRunsThorou int
}

func readJSONL(path string) (viol []violationRec, sums []summaryRec, err error) {
	f, err := os.Open(path)
	if err != nil {
		return nil, nil, err
	}
	defer f.Close()
	r := bufio.NewReaderSize(f, 1<<20)
	for {
		line, e := r.ReadBytes('\n')
		if len(bytes.TrimSpace(line)) > 0 {
			var head struct {
				Type string `json:"type"`
			}
			if json.Unmarshal(line, &head) != nil {
				return nil, nil, fmt.Errorf("%s: malformed line", path)
			}
			switch head.Type {
			case "violation":
				var v violationRec
				if err := json.Unmarshal(line, &v); err != nil {
					return nil, nil, err
				}
				viol = append(viol, v)
			case "summary":
				var s summaryRec
				if err := json.Unmarshal(line, &s); err != nil {
					return nil, nil, err
				}
				sums = append(sums, s)
			}
		}
		if e != nil {
			break
		}
	}
	return viol, sums, nil
}

// ---------------------------------------------------------------------------
// known findings

type knownFinding struct {
	kind     string // "open" or "fixed"
	property string
	class    string         // open: violation class (oracle@op)
	match    *regexp.Regexp // open: regexp over "signature | message"
	text     string
}

func loadKnown() []knownFinding {
	b, err := os.ReadFile(filepath.Join(verifDir, "KNOWN_FINDINGS.txt"))
	if err != nil {
		return nil
	}
	var out []knownFinding
	for _, line := range strings.Split(string(b), "\n") {
		line = strings.TrimSpace(line)
		if line == "" || strings.HasPrefix(line, "#") {
			continue
		}
		var k knownFinding
		switch {
		case strings.HasPrefix(line, "open:"):
			k.kind = "open"
			line = strings.TrimSpace(line[5:])
		case strings.HasPrefix(line, "fixed:"):
			k.kind = "fixed"
			line = strings.TrimSpace(line[6:])
		default:
			continue
		}
		k.text = line
		for _, f := range strings.Fields(line) {
			if strings.HasPrefix(f, "property=") {
				k.property = f[9:]
			} else if strings.HasPrefix(f, "class=") {
				k.class = f[6:]
			} else if strings.HasPrefix(f, "match=") {
				if re, err := regexp.Compile(f[6:]); err == nil {
					k.match = re
				}
			}
		}
		out = append(out, k)
	}
	return out
}

func (k *knownFinding) matches(v *violationRec) bool {
	if k.kind != "open" || v.Violation == nil || k.property != v.Violation.Property || k.class != v.Class {
		return false
	}
	if k.match == nil {
		return false // an open entry must pin the failing shape, not only the class
	}
	return k.match.MatchString(v.Violation.Sig + " | " + v.Violation.Message)
}

// ---------------------------------------------------------------------------
// check

func parseTier(args []string) (id, tier string, runs, raceRuns int64, nseeds int, keep bool) {
	tier = envOr("VERIF_TIER", "quick")
	runs, raceRuns = -1, -1
	for i := 0; i < len(args); i++ {
		a := args[i]
		switch {
		case a == "--tier" && i+1 < len(args):
			tier = args[i+1]
			i++
		case strings.HasPrefix(a, "--tier="):
			tier = a[7:]
		case a == "--runs" && i+1 < len(args):
			runs, _ = strconv.ParseInt(args[i+1], 10, 64)
			i++
		case a == "--race-runs" && i+1 < len(args):
			raceRuns, _ = strconv.ParseInt(args[i+1], 10, 64)
			i++
		case a == "--seeds" && i+1 < len(args):
			nseeds, _ = strconv.Atoi(args[i+1])
			i++
		case a == "--keep":
			keep = true
		case !strings.HasPrefix(a, "-") && id == "":
			id = a
		}
	}
	if tier != "quick" && tier != "thorough" {
		tier = "quick"
	}
	return
}

func seedFromEnv() uint64 {
	if v := os.Getenv("VERIF_SEED"); v != "" {
		if s, err := strconv.ParseUint(v, 10, 64); err == nil {
			return s
		}
		if s, err := strconv.ParseInt(v, 10, 64); err == nil {
			return uint64(s)
		}
	}
	return 1
}

func getMeta(sc *scratch, id string) meta {
	res := runWorker(sc.worker, nil, 60*time.Second, 8<<20, "meta", "-prop", id)
	var m meta
	if res.err != nil || json.Unmarshal([]byte(res.out), &m) != nil {
		die(2, "worker meta failed: %v\n%s", res.err, res.out)
	}
	return m
}

func cmdCheck(args []string) int {
	id, tier, runsOverride, raceOverride, nseeds, keep := parseTier(args)
	if id == "" {
		fmt.Fprintln(os.Stderr, "usage: verifctl check <id> [--tier quick|thorough] [--runs N]")
		return 2
	}
	keepScratch = keep
	seed := seedFromEnv()
	fmt.Printf("VERIF_SEED=%d property=%s tier=%s\n", seed, id, tier)
	t0 := time.Now()
	wantRace := id == "C20"
	sc := prepare(id, wantRace)
	defer cleanup()
	m := getMeta(sc, id)
	fmt.Printf("scratch copy instrumented: %d yield sites in %d files, %d map ranges owned; built in %.1fs (tree %s)\n",
		sc.report.NSites, sc.report.Files, len(sc.report.MapRanges), sc.buildS, sc.treeDigest)

	nruns := int64(m.RunsQuick)
	nrace := int64(m.RaceRunsQuick)
	wallCap := 8 * time.Minute
	if tier == "thorough" {
		nruns = int64(m.RunsThorough)
		nrace = int64(m.RaceRunsThorou)
		wallCap = 100 * time.Minute
		if nseeds == 0 {
			nseeds = 3
		}
	}
	if nseeds == 0 {
		nseeds = 1
	}
	if runsOverride >= 0 {
		nruns = runsOverride
	}
	if raceOverride >= 0 {
		nrace = raceOverride
	}
	if !wantRace {
		nrace = 0
	}
	seeds := make([]uint64, nseeds)
	for i := range seeds {
		seeds[i] = seed + uint64(i)*1000003
	}

	nw := runtime.NumCPU()
	if nw > 16 {
		nw = 16
	}
	agg := newAggregate(id)
	var allViol []violationRec
	batchDeadline := wallCap / time.Duration(nseeds)
	for si, s := range seeds {
		viol, code := runBatch(sc, id, tier, s, nruns, nrace, nw, batchDeadline, agg, si)
		if code == 2 {
			return 2
		}
		allViol = append(allViol, viol...)
		if len(allViol) > 0 {
			break
		}
	}

	// instrumented-copy regression: the repository's own tests still pass on
	// the instrumented copy (thorough tier; evidence only)
	instrTests := "not run (quick tier)"
	if tier == "thorough" {
		out, err := run(filepath.Join(sc.dir, "repo"), goEnv(), "go", "test", "-vet=off", "-count=1", "./...")
		if err != nil {
			instrTests = "FAIL: " + lastLines(out, 5)
		} else {
			instrTests = "pass"
		}
	}

	// classify violations
	known := loadKnown()
	// plain-build findings first (they are minimised in-process), then by run index
	sort.SliceStable(allViol, func(i, j int) bool {
		if allViol[i].Race != allViol[j].Race {
			return !allViol[i].Race
		}
		return allViol[i].Run < allViol[j].Run
	})
	exit := 0
	nViol := 0
	var knownLines []string
	seenKnown := map[string]bool{}
	seenClass := map[string]bool{}
	nDup := 0
	for i := range allViol {
		v := &allViol[i]
		matched := false
		for k := range known {
			if known[k].matches(v) {
				matched = true
				if !seenKnown[known[k].text] {
					seenKnown[known[k].text] = true
					knownLines = append(knownLines, fmt.Sprintf("KNOWN-FINDING: property=%s %s", id, known[k].text))
				}
				break
			}
		}
		if matched {
			continue
		}
		key := v.Class + "|" + v.Violation.Sig
		if seenClass[key] || len(seenClass) >= 8 {
			nDup++
			continue
		}
		seenClass[key] = true
		nViol++
		path := writeReplay(sc, id, tier, v)
		fmt.Printf("violation: %s %s\n  %s\n", v.Class, v.Violation.Sig, v.Violation.Message)
		for _, h := range v.History {
			fmt.Printf("    | %s\n", h)
		}
		fmt.Printf("VIOLATION property=%s replay=%s\n", id, path)
		exit = 1
	}
	for _, l := range knownLines {
		fmt.Println(l)
	}
	if nDup > 0 {
		fmt.Printf("(%d further violating runs of the same class and signature not listed)\n", nDup)
	}
	wall := time.Since(t0).Seconds()
	writeEvidence(sc, id, tier, seed, seeds, m, agg, nViol, len(knownLines), wall, instrTests)
	fmt.Printf("property=%s tier=%s runs=%d distinct_nontrivial=%d steps=%d switches=%d violations=%d known=%d wall=%.1fs\n",
		id, tier, agg.runs, len(agg.hashes), agg.steps, agg.switches, nViol, len(knownLines), wall)
	return exit
}

func lastLines(s string, n int) string {
	lines := strings.Split(strings.TrimSpace(s), "\n")
	if len(lines) > n {
		lines = lines[len(lines)-n:]
	}
	return strings.Join(lines, " / ")
}

type aggregate struct {
	id          string
	runs        uint64
	raceRuns    uint64
	steps       uint64
	switches    uint64
	budgetHits  uint64
	truncated   bool
	probes      map[string]int64
	faults      map[string]int64
	policies    map[string]int64
	ops         map[string]int64
	maxErr      float64
	maxErrWhere string
	sites       map[uint32]bool
	samples     []map[string]any
	hashes      map[uint64]struct{}
	workerWall  float64
	batchWall   float64
	raceWall    float64
	digests     []string
	raceReports int64
	workerProcs int
	raceProcs   int
}

func newAggregate(id string) *aggregate {
	return &aggregate{id: id, probes: map[string]int64{}, faults: map[string]int64{}, policies: map[string]int64{},
		ops: map[string]int64{}, sites: map[uint32]bool{}, hashes: map[uint64]struct{}{}}
}

func (a *aggregate) add(s *summaryRec) {
	if s.Race {
		a.raceRuns += s.Runs
		a.raceProcs++
	} else {
		a.runs += s.Runs
		a.workerProcs++
	}
	a.steps += s.Steps
	a.switches += s.Switches
	a.budgetHits += s.BudgetHits
	if s.Truncated {
		a.truncated = true
	}
	for k, v := range s.Probes {
		a.probes[k] += v
	}
	for k, v := range s.Faults {
		a.faults[k] += v
	}
	for k, v := range s.Policies {
		a.policies[k] += v
	}
	for k, v := range s.Ops {
		a.ops[k] += v
	}
	if s.MaxErrOverBound > a.maxErr {
		a.maxErr = s.MaxErrOverBound
		a.maxErrWhere = s.MaxErrWhere
	}
	for _, id := range s.SitesSeen {
		a.sites[id] = true
	}
	if len(a.samples) < 4 {
		for _, sm := range s.Samples {
			if len(a.samples) < 4 {
				a.samples = append(a.samples, sm)
			}
		}
	}
	a.workerWall += s.WallS
	a.digests = append(a.digests, s.Digest)
}

func (a *aggregate) addHashes(path string) {
	b, err := os.ReadFile(path)
	if err != nil {
		return
	}
	for i := 0; i+8 <= len(b); i += 8 {
		a.hashes[binary.LittleEndian.Uint64(b[i:])] = struct{}{}
	}
}

// gomaxprocsKnob is cycled over the worker processes of a batch.
var gomaxprocsKnob = []int{16, 1, 2, 40, 16, 3, 64, 256, 16, 5, 16, 33, 128, 16, 7, 16}

// runBatch fans one seed's runs out over nw plain worker processes (worker w
// executes run indices ≡ w mod nw) and, for C20, over short-lived race worker
// processes.
func runBatch(sc *scratch, id, tier string, seed uint64, nruns, nrace int64, nw int, deadline time.Duration, agg *aggregate, batchIdx int) ([]violationRec, int) {
	t0 := time.Now()
	var wg sync.WaitGroup
	type wres struct {
		w   int
		res procResult
	}
	results := make([]wres, nw)
	workerDeadline := deadline * 8 / 10
	if nruns > 0 {
		for w := 0; w < nw; w++ {
			wg.Add(1)
			go func(w int) {
				defer wg.Done()
				out := filepath.Join(sc.dir, fmt.Sprintf("b%d-w%d.jsonl", batchIdx, w))
				hf := filepath.Join(sc.dir, fmt.Sprintf("b%d-h%d.bin", batchIdx, w))
				// environment knob: the number of Ps the worker process runs with (a
				// library may consult runtime.GOMAXPROCS to size its own parallelism)
				res := runWorker(sc.worker, []string{fmt.Sprintf("GOMAXPROCS=%d", gomaxprocsKnob[w%len(gomaxprocsKnob)])}, deadline+2*time.Minute, 16<<20,
					"batch", "-prop", id, "-seed", fmt.Sprint(seed), "-tier", tier,
					"-start", fmt.Sprint(w), "-stride", fmt.Sprint(nw), "-n", fmt.Sprint(nruns),
					"-out", out, "-hashes", hf, "-deadline", workerDeadline.String())
				results[w] = wres{w, res}
			}(w)
		}
	}
	// race workers: short-lived processes of raceChunk runs each (cold package state, DESIGN.md §3.5)
	var raceViol []violationRec
	var raceMu sync.Mutex
	raceFail := ""
	if nrace > 0 && sc.workerRace != "" {
		const raceChunk = 20
		chunks := make(chan int64, 1024)
		nchunks := (nrace + raceChunk - 1) / raceChunk
		rw := nw / 2
		if rw < 1 {
			rw = 1
		}
		if nruns == 0 {
			rw = nw
		}
		go func() {
			for c := int64(0); c < nchunks; c++ {
				chunks <- c
			}
			close(chunks)
		}()
		tRace := time.Now()
		for k := 0; k < rw; k++ {
			wg.Add(1)
			go func() {
				defer wg.Done()
				for c := range chunks {
					if time.Since(t0) > workerDeadline {
						raceMu.Lock()
						agg.truncated = true
						raceMu.Unlock()
						continue
					}
					out := filepath.Join(sc.dir, fmt.Sprintf("b%d-r%d.jsonl", batchIdx, c))
					hf := filepath.Join(sc.dir, fmt.Sprintf("b%d-rh%d.bin", batchIdx, c))
					logp := filepath.Join(sc.dir, fmt.Sprintf("b%d-race%d", batchIdx, c))
					end := (c + 1) * raceChunk
					if end > nrace {
						end = nrace
					}
					res := runWorker(sc.workerRace, []string{"GORACE=log_path=" + logp + " halt_on_error=0 exitcode=0", "VERIF_RACE_LOG=" + logp},
						10*time.Minute, 64<<20,
						"batch", "-prop", id, "-seed", fmt.Sprint(seed), "-tier", tier,
						"-start", fmt.Sprint(c*raceChunk), "-stride", "1", "-n", fmt.Sprint(end),
						"-out", out, "-hashes", hf)
					raceMu.Lock()
					if res.err != nil {
						raceFail = fmt.Sprintf("race worker chunk %d (seed %d, runs %d..%d): %v\n%s", c, seed, c*raceChunk, end-1, res.err, lastLines(res.out, 20))
					} else {
						v, sums, err := readJSONL(out)
						if err != nil || len(sums) != 1 {
							raceFail = fmt.Sprintf("race worker chunk %d: unreadable output: %v", c, err)
						} else {
							agg.add(&sums[0])
							agg.addHashes(hf)
							raceViol = append(raceViol, v...)
						}
					}
					raceMu.Unlock()
					os.Remove(out)
					os.Remove(hf)
				}
			}()
		}
		defer func() { agg.raceWall += time.Since(tRace).Seconds() }()
	}
	wg.Wait()
	agg.batchWall += time.Since(t0).Seconds()
	if raceFail != "" {
		fmt.Fprintln(os.Stderr, "verifctl: "+raceFail)
		return nil, 2
	}
	var viol []violationRec
	if nruns > 0 {
		for _, r := range results {
			if r.res.err != nil {
				what := "crashed"
				if r.res.timedOut {
					what = "hung (watchdog)"
				}
				fmt.Fprintf(os.Stderr, "verifctl: worker %d %s: seed=%d property=%s run indices ≡ %d mod %d: %v\n%s\n",
					r.w, what, seed, id, r.w, nw, r.res.err, lastLines(r.res.out, 30))
				return nil, 2
			}
			out := filepath.Join(sc.dir, fmt.Sprintf("b%d-w%d.jsonl", batchIdx, r.w))
			v, sums, err := readJSONL(out)
			if err != nil || len(sums) != 1 {
				fmt.Fprintf(os.Stderr, "verifctl: worker %d produced no summary: %v\n", r.w, err)
				return nil, 2
			}
			agg.add(&sums[0])
			agg.addHashes(filepath.Join(sc.dir, fmt.Sprintf("b%d-h%d.bin", batchIdx, r.w)))
			viol = append(viol, v...)
		}
	}
	viol = append(viol, raceViol...)
	return viol, 0
}

// ---------------------------------------------------------------------------
// replay files

type replayFile struct {
	Property       string          `json:"property"`
	OracleID       string          `json:"oracle_id"`
	ViolationClass string          `json:"violation_class"`
	Signature      string          `json:"signature"`
	Message        string          `json:"message"`
	Seed           uint64          `json:"seed"`
	Run            uint64          `json:"run_index"`
	Tier           string          `json:"tier"`
	Policy         string          `json:"policy"`
	Minimised      bool            `json:"minimised"`
	Reproduced     bool            `json:"reproduced"`
	ReplayEnv      []string        `json:"replay_env,omitempty"`
	Prelude        *prelude        `json:"prelude,omitempty"`
	RaceBuild      bool            `json:"race_build"`
	Steps          uint64          `json:"steps"`
	Tape           tape            `json:"tape"`
	OrigTape       tape            `json:"orig_tape,omitempty"`
	Shrink         json.RawMessage `json:"shrink,omitempty"`
	History        []string        `json:"history"`
	ScheduleTrace  []string        `json:"schedule_trace"`
	FaultTrace     []string        `json:"fault_trace"`
	TreeDigest     string          `json:"tree_digest"`
	Extra          map[string]any  `json:"extra,omitempty"`
}

// prelude names runs to re-execute before the tape: what the worker process had
// run before the violating run. Used only when the tape alone does not
// reproduce the violation in a fresh process (a changed library that keeps
// state between calls: a cache, a pool).
type prelude struct {
	Seed   uint64 `json:"seed"`
	First  uint64 `json:"first"`
	Stride uint64 `json:"stride"`
	Count  uint64 `json:"count"`
}

func siteName(sc *scratch, id uint32) string {
	if id == 0 {
		return "(task end)"
	}
	i := int(id) - 1
	if i >= 0 && i < len(sc.report.Sites) && sc.report.Sites[i].ID == int(id) {
		s := sc.report.Sites[i]
		return fmt.Sprintf("%s:%d", s.File, s.Line)
	}
	return fmt.Sprintf("site#%d", id)
}

func writeReplay(sc *scratch, id, tier string, v *violationRec) string {
	os.MkdirAll(filepath.Join(outDir, "replays"), 0o755)
	seed := seedFromEnv()
	rf := replayFile{Property: id, OracleID: v.Violation.Oracle, ViolationClass: v.Class, Signature: v.Violation.Sig,
		Message: v.Violation.Message, Seed: seed, Run: v.Run, Tier: tier, Policy: v.Policy, Minimised: true, RaceBuild: v.Race,
		Steps: v.Steps, Tape: v.Tape, OrigTape: v.OrigTape, Shrink: v.Shrink, History: v.History, FaultTrace: v.FaultTrace,
		TreeDigest: sc.treeDigest, Extra: v.Extra}
	for _, s := range v.SchedTrace {
		rf.ScheduleTrace = append(rf.ScheduleTrace, fmt.Sprintf("seq=%d task %d -> %d at %s", s.Seq, s.From, s.To, siteName(sc, s.Site)))
	}
	path := filepath.Join(outDir, "replays", fmt.Sprintf("%s-%d-%d.json", id, seed, v.Run))
	write := func() {
		b, _ := json.MarshalIndent(rf, "", " ")
		os.WriteFile(path, b, 0o644)
	}
	write()
	// re-run the minimised tape in a fresh process: it must fail the same way
	bin := sc.worker
	tries := 1
	var env []string
	if v.Race {
		bin = sc.workerRace
		if v.Violation.Oracle == "C20/O3-data-race" {
			tries = 3
		}
		env = []string{"GORACE=log_path=" + filepath.Join(sc.dir, "replay-race") + " halt_on_error=0 exitcode=0", "VERIF_RACE_LOG=" + filepath.Join(sc.dir, "replay-race")}
	}
	check := func() bool {
		// a changed library may carry a nondeterminism source the simulator does not
		// own (sync.Pool, for one, behaves per-P): the second attempt pins GOMAXPROCS=1
		first := []string(nil)
		if v.Procs > 0 {
			first = []string{fmt.Sprintf("GOMAXPROCS=%d", v.Procs)} // the knob the worker ran with
		}
		for _, extra := range [][]string{first, {"GOMAXPROCS=1"}} {
			for t := 0; t < tries; t++ {
				outp := filepath.Join(sc.dir, "replay-result.json")
				res := runWorker(bin, append(append([]string(nil), env...), extra...), 5*time.Minute, 16<<20, "replay", "-file", path, "-out", outp)
				if res.err != nil {
					continue
				}
				var rr violationRec
				b, _ := os.ReadFile(outp)
				if json.Unmarshal(b, &rr) == nil && rr.Violation != nil && rr.Class == v.Class {
					if extra != nil {
						rf.ReplayEnv = extra
					}
					return true
				}
			}
		}
		return false
	}
	if v.Race && v.Violation.Oracle == "C20/O3-data-race" {
		// the race detector suppresses repeated reports within a process, so a race
		// finding is minimised by re-executing candidate tapes in fresh -race subprocesses
		min, execs := shrinkInSubprocess(sc, bin, env, &rf, v.Class, 60, 150*time.Second)
		if execs > 0 {
			rf.Tape = min
			rf.Shrink = json.RawMessage(fmt.Sprintf(`{"subprocess_executions":%d,"draws_before":[%d,%d,%d,%d],"draws_after":[%d,%d,%d,%d]}`, execs,
				len(v.OrigTape[0]), len(v.OrigTape[1]), len(v.OrigTape[2]), len(v.OrigTape[3]), len(min[0]), len(min[1]), len(min[2]), len(min[3])))
			write()
			// refresh the traces from the minimised tape
			outp := filepath.Join(sc.dir, "replay-result.json")
			if res := runWorker(bin, env, 5*time.Minute, 64<<20, "replay", "-file", path, "-out", outp); res.err == nil {
				var rr violationRec
				if b, err := os.ReadFile(outp); err == nil && json.Unmarshal(b, &rr) == nil && rr.Violation != nil && rr.Class == v.Class {
					rf.History, rf.FaultTrace, rf.Message, rf.Steps = rr.History, rr.FaultTrace, rr.Violation.Message, rr.Steps
					rf.ScheduleTrace = nil
					for _, st := range rr.SchedTrace {
						rf.ScheduleTrace = append(rf.ScheduleTrace, fmt.Sprintf("seq=%d task %d -> %d at %s", st.Seq, st.From, st.To, siteName(sc, st.Site)))
					}
					v.History = rr.History
					write()
				}
			}
		}
	}
	rf.Reproduced = check()
	if !rf.Reproduced && len(v.OrigTape[0])+len(v.OrigTape[1])+len(v.OrigTape[2])+len(v.OrigTape[3]) > 0 {
		// fall back to the un-minimised tape (DESIGN.md §7.3)
		rf.Tape = v.OrigTape
		rf.Minimised = false
		write()
		rf.Reproduced = check()
		if !rf.Reproduced && v.Stride > 0 && v.Run >= v.Start {
			// the finding may depend on what the worker process ran before: replay
			// with the preceding runs of that worker as a prelude (last 64, then all)
			n := (v.Run - v.Start) / v.Stride
			for _, cnt := range []uint64{64, n} {
				if cnt > n {
					cnt = n
				}
				if cnt == 0 {
					continue
				}
				rf.Prelude = &prelude{Seed: v.Seed, First: v.Run - cnt*v.Stride, Stride: v.Stride, Count: cnt}
				write()
				if rf.Reproduced = check(); rf.Reproduced {
					break
				}
			}
			if !rf.Reproduced {
				rf.Prelude = nil
			}
		}
		if !rf.Reproduced {
			fmt.Fprintf(os.Stderr, "verifctl: replay of run %d does not reproduce %s in a fresh process: the violation was observed, but it depends on state left behind by earlier runs of the worker process, on a nondeterminism source inside the (changed) library that the simulator does not own (sync.Pool, the global rand source, ...), or on a simulator determinism failure; the replay file is marked reproduced=false\n", v.Run, v.Class)
		}
	}
	write()
	return path
}

func cmdReplay(args []string) int {
	if len(args) < 1 {
		fmt.Fprintln(os.Stderr, "usage: verifctl replay <path>")
		return 2
	}
	path, _ := filepath.Abs(args[0])
	b, err := os.ReadFile(path)
	if err != nil {
		fmt.Fprintln(os.Stderr, "verifctl:", err)
		return 2
	}
	var rf replayFile
	if err := json.Unmarshal(b, &rf); err != nil {
		fmt.Fprintln(os.Stderr, "verifctl: bad replay file:", err)
		return 2
	}
	race := rf.RaceBuild
	sc := prepare("replay", race)
	defer cleanup()
	bin := sc.worker
	var env []string
	if race {
		bin = sc.workerRace
		env = []string{"GORACE=log_path=" + filepath.Join(sc.dir, "replay-race") + " halt_on_error=0 exitcode=0", "VERIF_RACE_LOG=" + filepath.Join(sc.dir, "replay-race")}
	}
	env = append(env, rf.ReplayEnv...)
	outp := filepath.Join(sc.dir, "replay-result.json")
	res := runWorker(bin, env, 10*time.Minute, 16<<20, "replay", "-file", path, "-out", outp)
	if res.err != nil {
		fmt.Fprintf(os.Stderr, "verifctl: replay worker failed: %v\n%s\n", res.err, res.out)
		return 2
	}
	var rr violationRec
	rb, _ := os.ReadFile(outp)
	if json.Unmarshal(rb, &rr) != nil {
		fmt.Fprintln(os.Stderr, "verifctl: unreadable replay result")
		return 2
	}
	fmt.Printf("replay of %s on tree %s (recorded on tree %s)\n", filepath.Base(path), sc.treeDigest, rf.TreeDigest)
	for _, h := range rr.History {
		fmt.Printf("    | %s\n", h)
	}
	for _, s := range rr.SchedTrace {
		fmt.Printf("    ~ seq=%d task %d -> %d at %s\n", s.Seq, s.From, s.To, siteName(sc, s.Site))
	}
	if rr.Violation == nil {
		fmt.Println("no violation: the property holds on this replay")
		return 0
	}
	fmt.Printf("violation: %s %s\n  %s\n", rr.Class, rr.Violation.Sig, rr.Violation.Message)
	if rr.Class == rf.ViolationClass {
		fmt.Println("same violation class as recorded: reproduced")
	} else {
		fmt.Printf("different violation class than recorded (%s)\n", rf.ViolationClass)
	}
	fmt.Printf("VIOLATION property=%s replay=%s\n", rf.Property, path)
	return 1
}

// shrinkInSubprocess minimises rf.Tape by deleting chunks while a fresh worker
// process keeps reporting the same violation class. Coarse (few executions: each
// costs a process start), good enough to drop most of a tape.
func shrinkInSubprocess(sc *scratch, bin string, env []string, rf *replayFile, class string, maxExec int, maxWall time.Duration) (tape, int) {
	start := time.Now()
	execs := 0
	cur := rf.Tape
	tmp := filepath.Join(sc.dir, "shrink-candidate.json")
	outp := filepath.Join(sc.dir, "shrink-result.json")
	test := func(c tape) bool {
		if execs >= maxExec || time.Since(start) > maxWall {
			return false
		}
		execs++
		cand := *rf
		cand.Tape = c
		b, _ := json.Marshal(cand)
		os.WriteFile(tmp, b, 0o644)
		res := runWorker(bin, env, 3*time.Minute, 64<<20, "replay", "-file", tmp, "-out", outp)
		if res.err != nil {
			return false
		}
		var rr violationRec
		rb, _ := os.ReadFile(outp)
		return json.Unmarshal(rb, &rr) == nil && rr.Violation != nil && rr.Class == class
	}
	clone := func(t tape) tape {
		var c tape
		for i := range t {
			c[i] = append([]draw(nil), t[i]...)
		}
		return c
	}
	// the original must reproduce at all, otherwise there is nothing to minimise against
	if !test(cur) {
		return cur, 0
	}
	// 1. drop whole non-workload streams (a race needs no particular interleaving: the
	//    detector sees no ordering between tasks however they are scheduled)
	for _, st := range []int{1, 3, 2} {
		if len(cur[st]) == 0 {
			continue
		}
		c := clone(cur)
		c[st] = nil
		if test(c) {
			cur = c
		}
	}
	// 2. delete chunks of the workload stream, coarse to fine
	for k := len(cur[0]) / 2; k >= 4; k /= 2 {
		for i := len(cur[0]) - k; i >= 0; i -= k {
			if execs >= maxExec || time.Since(start) > maxWall {
				return cur, execs
			}
			if i+k > len(cur[0]) {
				continue
			}
			c := clone(cur)
			c[0] = append(append([]draw(nil), cur[0][:i]...), cur[0][i+k:]...)
			if test(c) {
				cur = c
			}
		}
	}
	return cur, execs
}

// ---------------------------------------------------------------------------
// evidence

func sortedKV(m map[string]int64) map[string]int64 { return m } // encoding/json sorts map keys

func writeEvidence(sc *scratch, id, tier string, seed uint64, seeds []uint64, m meta, agg *aggregate, nViol, nKnown int, wall float64, instrTests string) {
	os.MkdirAll(filepath.Join(outDir, "evidence"), 0o755)
	samples := make([]any, 0, len(agg.samples))
	for _, s := range agg.samples {
		samples = append(samples, s)
	}
	if len(samples) == 0 {
		samples = append(samples, map[string]any{"note": "no sample history was recorded in this run"})
	}
	totalRuns := agg.runs + agg.raceRuns
	perHour := 0.0
	if agg.batchWall > 0 {
		perHour = float64(totalRuns) / agg.batchWall * 3600
	}
	uncatalogued := []string{}
	catalogued := 0
	if id == "C20" {
		for _, a := range sc.report.API {
			if !a.Aggregate {
				continue
			}
			name := a.Name
			if i := strings.LastIndex(name, "/"); i >= 0 {
				name = name[i+1:]
			}
			_, in := agg.ops["api:"+name]
			_, ex := agg.ops["api-excluded:"+name]
			if in || ex {
				catalogued++
			} else {
				uncatalogued = append(uncatalogued, name)
			}
		}
	}
	cov := map[string]any{
		"evaluations":                totalRuns,
		"distinct_nontrivial":        len(agg.hashes),
		"rule":                       m.Rule,
		"samples":                    samples,
		"exhaustive":                 false,
		"runs_per_hour":              int64(perHour),
		"seeds":                      seeds,
		"plain_runs":                 agg.runs,
		"race_runs":                  agg.raceRuns,
		"scheduler_steps":            agg.steps,
		"simulated_time":             "the library has no clock: simulated time is reported as scheduler steps (yield points executed), see scheduler_steps",
		"switches":                   agg.switches,
		"faults_fired":               agg.faults,
		"fault_kinds":                m.FaultKinds,
		"not_applicable_fault_kinds": m.NotApplicable,
		"probes":                     agg.probes,
		"policies":                   agg.policies,
		"operations":                 agg.ops,
		"yield_sites_total":          sc.report.NSites,
		"yield_sites_reached":        len(agg.sites),
		"step_budget_hits":           agg.budgetHits,
		"truncated_by_wall_cap":      agg.truncated,
		"max_error_over_bound":       agg.maxErr,
		"max_error_where":            agg.maxErrWhere,
		"components":                 map[string]any{"real": m.Real, "stub": m.Stub},
		"instrumentation": map[string]any{
			"map_ranges_owned": sc.report.MapRanges, "map_ranges_unowned": sc.report.MapRangesUnowned,
			"lock_rewrites": sc.report.LockRewrites, "locks_unowned": sc.report.LocksUnowned,
			"atomic_funcs": sc.report.AtomicFuncs, "go_statements_in_library": sc.report.GoStmts, "sync_operation_sites": len(sc.report.SyncSites),
		},
		"instrumented_repo_tests": instrTests,
		"worker_processes":        agg.workerProcs,
		"race_worker_processes":   agg.raceProcs,
		"tree_digest":             sc.treeDigest,
		"known_findings_hit":      nKnown,
		"environment_knobs":       map[string]any{"GOMAXPROCS_per_worker_process": gomaxprocsKnob, "note": "plain worker w runs with the (w mod 16)-th value; race workers use the default"},
		"build_s":                 sc.buildS,
	}
	if id == "C20" {
		cov["api_audit"] = map[string]any{"catalogued": catalogued, "uncatalogued": uncatalogued}
	}
	ev := map[string]any{
		"property_id": id,
		"tier":        tier,
		"seed":        int64(seed),
		"level":       "exploration",
		"coverage":    cov,
		"assumptions": m.Assumptions,
		"wall_s":      wall,
		"violations":  nViol,
	}
	b, _ := json.MarshalIndent(ev, "", " ")
	os.WriteFile(filepath.Join(outDir, "evidence", id+".json"), b, 0o644)
}

// ---------------------------------------------------------------------------
// selftest determinism: the same (seed, run) must give the same digest in
// different processes, at different GOMAXPROCS, in plain and race builds.

func cmdSelftest(args []string) int {
	if len(args) < 1 || args[0] != "determinism" {
		fmt.Fprintln(os.Stderr, "usage: verifctl selftest determinism [ids...] [--runs N]")
		return 2
	}
	ids := []string{}
	nruns := int64(40)
	for i := 1; i < len(args); i++ {
		if args[i] == "--runs" && i+1 < len(args) {
			nruns, _ = strconv.ParseInt(args[i+1], 10, 64)
			i++
		} else {
			ids = append(ids, args[i])
		}
	}
	if len(ids) == 0 {
		ids = []string{"C09", "C13", "C14", "C18", "C20"}
	}
	// lint: the harness and the kernel never range over a map except to sort keys, and never use sync.Map
	if out, _ := run(verifDir, os.Environ(), "grep", "-rn", "--include=*.go", "-E", `\.Range\(func|sync\.Map`, "harness", "simhook"); strings.TrimSpace(out) != "" {
		fmt.Printf("lint: sync.Map / .Range( found:\n%s\n", out)
		return 1
	}
	// lint: no function literals in the kernel's //go:norace files (a func literal
	// inside a //go:norace function is a separate, instrumented function: its
	// accesses to scheduler state would be reported as races between tasks)
	if out, _ := run(verifDir, os.Environ(), "grep", "-n", "-E", `(:=|=|go|defer|\(|,)\s*func\(`, "simhook/sched.go", "simhook/tape.go", "simhook/baton_race.go"); strings.TrimSpace(out) != "" {
		fmt.Printf("lint: function literal in a //go:norace kernel file:\n%s\n", out)
		return 1
	}
	wantRace := false
	for _, id := range ids {
		if id == "C20" {
			wantRace = true
		}
	}
	sc := prepare("selftest", wantRace)
	defer cleanup()
	seed := seedFromEnv()
	fail := 0
	for _, id := range ids {
		type cfg struct {
			bin   string
			procs int
			label string
		}
		cfgs := []cfg{{sc.worker, 1, "plain/1"}, {sc.worker, 4, "plain/4"}, {sc.worker, 16, "plain/16"}, {sc.worker, 16, "plain/16b"}}
		n := nruns
		if id == "C20" {
			cfgs = append(cfgs, cfg{sc.workerRace, 2, "race/2"}, cfg{sc.workerRace, 16, "race/16"}, cfg{sc.workerRace, 4, "race/4"})
		}
		// every configuration executes the same run indices, split over 8 processes
		const procsPer = 8
		ref := map[string]string{}
		refLabel := ""
		var mu sync.Mutex
		for _, c := range cfgs {
			var wg sync.WaitGroup
			got := map[string]string{}
			bad := ""
			for p := 0; p < procsPer; p++ {
				wg.Add(1)
				go func(p int) {
					defer wg.Done()
					out := filepath.Join(sc.dir, fmt.Sprintf("st-%s-%d.jsonl", strings.ReplaceAll(c.label, "/", "_"), p))
					dg := out + ".dig"
					env := []string{fmt.Sprintf("GOMAXPROCS=%d", c.procs)}
					if strings.HasPrefix(c.label, "race") {
						lp := filepath.Join(sc.dir, fmt.Sprintf("st-race-%s-%d", strings.ReplaceAll(c.label, "/", "_"), p))
						env = append(env, "GORACE=log_path="+lp+" halt_on_error=0 exitcode=0", "VERIF_RACE_LOG="+lp)
					}
					res := runWorker(c.bin, env, 20*time.Minute, 64<<20, "batch", "-prop", id, "-seed", fmt.Sprint(seed), "-tier", "quick",
						"-start", fmt.Sprint(p), "-stride", fmt.Sprint(procsPer), "-n", fmt.Sprint(n), "-out", out, "-digests", dg, "-noshrink", "-maxviol", "1000000")
					mu.Lock()
					defer mu.Unlock()
					if res.err != nil {
						bad = fmt.Sprintf("%v: %s", res.err, lastLines(res.out, 10))
						return
					}
					b, _ := os.ReadFile(dg)
					for _, line := range strings.Split(strings.TrimSpace(string(b)), "\n") {
						f := strings.Fields(line)
						if len(f) == 2 {
							got[f[0]] = f[1]
						}
					}
				}(p)
			}
			wg.Wait()
			if bad != "" {
				fmt.Printf("selftest %s %s: worker failed: %s\n", id, c.label, bad)
				return 2
			}
			if refLabel == "" || strings.HasPrefix(c.label, "race") != strings.HasPrefix(refLabel, "race") {
				// the race build draws different policies and runs its phases in a
				// different order: it is compared with itself, not with the plain build
				ref, refLabel = got, c.label
				fmt.Printf("selftest %s %-9s: %d run digests recorded\n", id, c.label, len(got))
				continue
			}
			diff := 0
			for k, v := range ref {
				if got[k] != v {
					diff++
					if diff <= 5 {
						fmt.Printf("  DIVERGENCE %s run %s: %s=%s %s=%s\n", id, k, refLabel, v, c.label, got[k])
					}
				}
			}
			fmt.Printf("selftest %s %-9s: %d/%d digests equal to %s\n", id, c.label, len(ref)-diff, len(ref), refLabel)
			fail += diff
		}
	}
	if fail > 0 {
		fmt.Printf("selftest determinism: FAILED (%d divergent runs)\n", fail)
		return 1
	}
	fmt.Println("selftest determinism: ok")
	return 0
}
