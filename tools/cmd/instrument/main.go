// Command instrument rewrites a scratch copy of the library so that a
// deterministic simulator owns its interleavings and its hidden
// nondeterminism (DESIGN.md §3.2):
//
//  1. `_simhook.Y(site)` is spliced before every statement (same line, byte
//     offset splicing: line numbers are unchanged);
//  2. `for k, v := range m` over a map becomes an iteration over
//     `_simhook.MapKeys(m)` — the simulator chooses the order;
//  3. `mu.Lock()` / `mu.RLock()` on sync.Mutex / sync.RWMutex become a
//     TryLock+yield loop; functions that use goroutines, channels, select,
//     WaitGroup, Cond or Once are bracketed as atomic sections;
//  4. an API listing and a site table are written for the driver.
//
// It never touches /repo: it is run on a copy.
package main

import (
	"encoding/json"
	"flag"
	"fmt"
	"go/ast"
	"go/token"
	"go/types"
	"os"
	"path/filepath"
	"sort"
	"strings"

	"golang.org/x/tools/go/packages"
)

type edit struct {
	start, end int
	text       string
	seq        int
}

type site struct {
	ID   int    `json:"id"`
	File string `json:"file"`
	Line int    `json:"line"`
	Func string `json:"func,omitempty"`
}

type apiEntry struct {
	Name      string `json:"name"`
	Sig       string `json:"sig"`
	Aggregate bool   `json:"aggregate"` // takes a slice, Sample, graph, distribution, pointer, func or interface
}

type report struct {
	Sites            []site     `json:"sites"`
	NSites           int        `json:"nsites"`
	Files            int        `json:"files"`
	MapRanges        []string   `json:"map_ranges_rewritten"`
	MapRangesUnowned []string   `json:"map_ranges_unowned"`
	LockRewrites     []string   `json:"lock_rewrites"`
	LocksUnowned     []string   `json:"locks_unowned"`
	AtomicFuncs      []string   `json:"atomic_funcs"`
	GoStmts          int        `json:"go_stmts"`
	SyncSites        []string   `json:"sync_sites"` // yield sites in front of statements that perform a synchronisation operation (sync, sync/atomic, channels)
	API              []apiEntry `json:"api"`
	PkgVars          []string   `json:"package_vars"`
}

func main() {
	dir := flag.String("dir", "", "root of the scratch copy of the module")
	simhookPath := flag.String("simhook", "../simhook", "path of the simhook module, as written into the copy's go.mod replace line")
	out := flag.String("out", "", "where to write the JSON report (sites, rewrites, API listing)")
	flag.Parse()
	if *dir == "" || *out == "" {
		fmt.Fprintln(os.Stderr, "usage: instrument -dir <copy> -out <report.json> [-simhook <path>]")
		os.Exit(2)
	}
	absDir, _ := filepath.Abs(*dir)
	cfg := &packages.Config{
		Mode: packages.NeedName | packages.NeedFiles | packages.NeedCompiledGoFiles | packages.NeedSyntax |
			packages.NeedTypes | packages.NeedTypesInfo | packages.NeedImports | packages.NeedDeps,
		Dir: absDir,
		Env: append(os.Environ(), "GOFLAGS=-mod=mod", "GOPROXY=off", "GOSUMDB=off", "GOTOOLCHAIN=local"),
	}
	pkgs, err := packages.Load(cfg, "./...")
	if err != nil {
		fmt.Fprintln(os.Stderr, "instrument: load:", err)
		os.Exit(2)
	}
	bad := false
	for _, p := range pkgs {
		for _, e := range p.Errors {
			fmt.Fprintln(os.Stderr, "instrument: package error:", e)
			bad = true
		}
	}
	if bad {
		os.Exit(2)
	}
	sort.Slice(pkgs, func(i, j int) bool { return pkgs[i].PkgPath < pkgs[j].PkgPath })

	rep := &report{}
	nextSite := 1
	for _, p := range pkgs {
		collectAPI(p, rep)
		for i, f := range p.Syntax {
			fname := p.CompiledGoFiles[i]
			if !strings.HasSuffix(fname, ".go") || strings.HasSuffix(fname, "_test.go") {
				continue
			}
			rel, _ := filepath.Rel(absDir, fname)
			src, err := os.ReadFile(fname)
			if err != nil {
				fmt.Fprintln(os.Stderr, "instrument:", err)
				os.Exit(2)
			}
			in := &instr{pkg: p, file: f, fset: p.Fset, src: src, rel: rel, rep: rep, nextSite: &nextSite}
			in.run()
			if len(in.edits) == 0 {
				continue
			}
			res := in.apply()
			if err := os.WriteFile(fname, res, 0o644); err != nil {
				fmt.Fprintln(os.Stderr, "instrument:", err)
				os.Exit(2)
			}
			rep.Files++
		}
	}
	rep.NSites = nextSite - 1

	// go.mod of the copy: require + replace for the simhook module
	gomod := filepath.Join(absDir, "go.mod")
	b, err := os.ReadFile(gomod)
	if err != nil {
		fmt.Fprintln(os.Stderr, "instrument:", err)
		os.Exit(2)
	}
	b = append(b, []byte(fmt.Sprintf("\nrequire verif.local/simhook v0.0.0\n\nreplace verif.local/simhook => %s\n", *simhookPath))...)
	if err := os.WriteFile(gomod, b, 0o644); err != nil {
		fmt.Fprintln(os.Stderr, "instrument:", err)
		os.Exit(2)
	}
	jb, _ := json.Marshal(rep)
	if err := os.WriteFile(*out, jb, 0o644); err != nil {
		fmt.Fprintln(os.Stderr, "instrument:", err)
		os.Exit(2)
	}
	fmt.Printf("instrument: %d sites in %d files (%d at synchronisation operations); %d map ranges owned, %d unowned; %d lock rewrites; %d atomic funcs\n",
		rep.NSites, rep.Files, len(rep.SyncSites), len(rep.MapRanges), len(rep.MapRangesUnowned), len(rep.LockRewrites), len(rep.AtomicFuncs))
}

type instr struct {
	pkg      *packages.Package
	file     *ast.File
	fset     *token.FileSet
	src      []byte
	rel      string
	rep      *report
	nextSite *int
	edits    []edit
	seq      int
	curFunc  string
}

func (in *instr) off(p token.Pos) int { return in.fset.Position(p).Offset }

func (in *instr) insert(at int, text string) {
	in.seq++
	in.edits = append(in.edits, edit{at, at, text, in.seq})
}

func (in *instr) replace(start, end int, text string) {
	in.seq++
	in.edits = append(in.edits, edit{start, end, text, in.seq})
}

func (in *instr) text(n ast.Node) string { return string(in.src[in.off(n.Pos()):in.off(n.End())]) }

func (in *instr) where(p token.Pos) string {
	return fmt.Sprintf("%s:%d", in.rel, in.fset.Position(p).Line)
}

func (in *instr) run() {
	skipBlocks := map[*ast.BlockStmt]bool{}
	var funcStack []string
	var visit func(n ast.Node) bool
	// manual walk to track the enclosing function name
	visit = func(n ast.Node) bool {
		switch n := n.(type) {
		case *ast.FuncDecl:
			name := n.Name.Name
			if n.Recv != nil && len(n.Recv.List) > 0 {
				name = recvName(n.Recv.List[0].Type) + "." + name
			}
			funcStack = append(funcStack, name)
			in.curFunc = name
			if n.Body != nil {
				if in.usesConcurrency(n.Body) {
					in.rep.AtomicFuncs = append(in.rep.AtomicFuncs, in.pkg.PkgPath+"."+name+" @"+in.where(n.Pos()))
					in.insert(in.off(n.Body.Lbrace)+1, " _simhook.EnterAtomic(); defer _simhook.ExitAtomic();")
				}
				ast.Inspect(n.Body, visit)
			}
			funcStack = funcStack[:len(funcStack)-1]
			in.curFunc = ""
			return false
		case *ast.SwitchStmt:
			skipBlocks[n.Body] = true
		case *ast.TypeSwitchStmt:
			skipBlocks[n.Body] = true
		case *ast.SelectStmt:
			skipBlocks[n.Body] = true
		case *ast.BlockStmt:
			if !skipBlocks[n] {
				in.stmts(n.List)
			}
		case *ast.CaseClause:
			in.stmts(n.Body)
		case *ast.CommClause:
			in.stmts(n.Body)
		case *ast.GoStmt:
			in.rep.GoStmts++
		case *ast.RangeStmt:
			in.rangeStmt(n)
		case *ast.ExprStmt:
			in.lockStmt(n)
		}
		return true
	}
	ast.Inspect(in.file, visit)
	if len(in.edits) > 0 {
		in.insert(in.off(in.file.Name.End()), `; import _simhook "verif.local/simhook"`)
	}
}

func recvName(e ast.Expr) string {
	switch t := e.(type) {
	case *ast.StarExpr:
		return recvName(t.X)
	case *ast.Ident:
		return t.Name
	case *ast.IndexExpr:
		return recvName(t.X)
	case *ast.IndexListExpr:
		return recvName(t.X)
	}
	return "?"
}

func (in *instr) stmts(list []ast.Stmt) {
	for _, s := range list {
		if _, ok := s.(*ast.EmptyStmt); ok {
			continue
		}
		id := *in.nextSite
		*in.nextSite++
		pos := in.fset.Position(s.Pos())
		in.rep.Sites = append(in.rep.Sites, site{ID: id, File: in.rel, Line: pos.Line, Func: in.curFunc})
		hook := "Y"
		if in.isSyncStmt(s) {
			// a statement that performs a synchronisation operation: the scheduler can
			// be told to concentrate its decisions here (check-then-act windows between
			// two atomic operations are one statement wide)
			hook = "YS"
			in.rep.SyncSites = append(in.rep.SyncSites, in.where(s.Pos()))
		}
		in.insert(pos.Offset, fmt.Sprintf("_simhook.%s(%d); ", hook, id))
	}
}

// isSyncStmt reports whether s itself (not the statements nested in its blocks,
// which get their own yield points) calls into sync or sync/atomic or performs
// a channel operation.
func (in *instr) isSyncStmt(s ast.Stmt) bool {
	found := false
	var visit func(n ast.Node) bool
	visit = func(n ast.Node) bool {
		if found || n == nil {
			return false
		}
		switch n := n.(type) {
		case *ast.BlockStmt, *ast.FuncLit, *ast.CaseClause, *ast.CommClause:
			return false // nested statements have their own yield points
		case *ast.SendStmt:
			found = true
		case *ast.UnaryExpr:
			if n.Op == token.ARROW {
				found = true
			}
		case *ast.CallExpr:
			if sel, ok := n.Fun.(*ast.SelectorExpr); ok {
				if fn, ok := in.pkg.TypesInfo.Uses[sel.Sel].(*types.Func); ok && fn.Pkg() != nil {
					if p := fn.Pkg().Path(); p == "sync" || p == "sync/atomic" {
						found = true
					}
				}
			}
		}
		return !found
	}
	// for compound statements look at the header expressions only
	switch st := s.(type) {
	case *ast.IfStmt:
		if st.Init != nil {
			ast.Inspect(st.Init, visit)
		}
		ast.Inspect(st.Cond, visit)
	case *ast.ForStmt:
		if st.Init != nil {
			ast.Inspect(st.Init, visit)
		}
		if st.Cond != nil {
			ast.Inspect(st.Cond, visit)
		}
	case *ast.RangeStmt:
		ast.Inspect(st.X, visit)
	case *ast.SwitchStmt:
		if st.Init != nil {
			ast.Inspect(st.Init, visit)
		}
		if st.Tag != nil {
			ast.Inspect(st.Tag, visit)
		}
	case *ast.TypeSwitchStmt, *ast.SelectStmt, *ast.BlockStmt, *ast.LabeledStmt:
		// nothing in the header
	default:
		ast.Inspect(s, visit)
	}
	return found
}

// ownable reports whether map keys of type t have a canonical order that does
// not depend on addresses.
func ownable(t types.Type) bool {
	switch u := t.Underlying().(type) {
	case *types.Basic:
		return u.Info()&(types.IsInteger|types.IsFloat|types.IsString|types.IsBoolean) != 0
	case *types.Struct:
		for i := 0; i < u.NumFields(); i++ {
			if !ownable(u.Field(i).Type()) {
				return false
			}
		}
		return true
	case *types.Array:
		return ownable(u.Elem())
	}
	return false
}

func simpleExpr(e ast.Expr) bool {
	ok := true
	ast.Inspect(e, func(n ast.Node) bool {
		switch n.(type) {
		case *ast.CallExpr, *ast.FuncLit, *ast.CompositeLit, *ast.TypeAssertExpr:
			ok = false
		case *ast.UnaryExpr:
			if n.(*ast.UnaryExpr).Op == token.ARROW {
				ok = false
			}
		}
		return ok
	})
	return ok
}

func (in *instr) rangeStmt(rs *ast.RangeStmt) {
	tv, ok := in.pkg.TypesInfo.Types[rs.X]
	if !ok {
		return
	}
	mt, ok := tv.Type.Underlying().(*types.Map)
	if !ok {
		return
	}
	if !ownable(mt.Key()) || !simpleExpr(rs.X) {
		in.rep.MapRangesUnowned = append(in.rep.MapRangesUnowned, in.where(rs.Pos()))
		return
	}
	x := in.text(rs.X)
	tok := rs.Tok.String() // := or = (ILLEGAL when no key)
	isBlank := func(e ast.Expr) bool {
		if e == nil {
			return true
		}
		id, ok := e.(*ast.Ident)
		return ok && id.Name == "_"
	}
	var b strings.Builder
	fmt.Fprintf(&b, "for _, _sk := range _simhook.MapKeys(%s) {", x)
	if isBlank(rs.Value) {
		fmt.Fprintf(&b, " if _, _sok := %s[_sk]; !_sok { continue };", x)
	} else {
		fmt.Fprintf(&b, " _sv, _sok := %s[_sk]; if !_sok { continue };", x)
	}
	if !isBlank(rs.Key) {
		fmt.Fprintf(&b, " %s %s _sk;", in.text(rs.Key), tok)
	} else {
		b.WriteString(" _ = _sk;")
	}
	if !isBlank(rs.Value) {
		fmt.Fprintf(&b, " %s %s _sv;", in.text(rs.Value), tok)
	}
	in.replace(in.off(rs.For), in.off(rs.Body.Lbrace)+1, b.String())
	in.rep.MapRanges = append(in.rep.MapRanges, in.where(rs.Pos()))
}

func (in *instr) lockStmt(es *ast.ExprStmt) {
	call, ok := es.X.(*ast.CallExpr)
	if !ok || len(call.Args) != 0 {
		return
	}
	sel, ok := call.Fun.(*ast.SelectorExpr)
	if !ok || (sel.Sel.Name != "Lock" && sel.Sel.Name != "RLock") {
		return
	}
	fn, ok := in.pkg.TypesInfo.Uses[sel.Sel].(*types.Func)
	if !ok {
		return
	}
	var try string
	switch fn.FullName() {
	case "(*sync.Mutex).Lock", "(*sync.RWMutex).Lock":
		try = "TryLock"
	case "(*sync.RWMutex).RLock":
		try = "TryRLock"
	default:
		if strings.HasSuffix(fn.FullName(), ".Lock") || strings.HasSuffix(fn.FullName(), ".RLock") {
			in.rep.LocksUnowned = append(in.rep.LocksUnowned, in.where(es.Pos())+" "+fn.FullName())
		}
		return
	}
	in.replace(in.off(call.Pos()), in.off(call.End()), fmt.Sprintf("_simhook.Lock(%s.%s)", in.text(sel.X), try))
	in.rep.LockRewrites = append(in.rep.LockRewrites, in.where(es.Pos()))
}

// usesConcurrency reports whether body lexically contains a go statement, a
// channel operation, select, or a call on sync.WaitGroup / Cond / Once.
func (in *instr) usesConcurrency(body *ast.BlockStmt) bool {
	found := false
	ast.Inspect(body, func(n ast.Node) bool {
		if found {
			return false
		}
		switch n := n.(type) {
		case *ast.GoStmt, *ast.SendStmt, *ast.SelectStmt:
			found = true
		case *ast.UnaryExpr:
			if n.Op == token.ARROW {
				found = true
			}
		case *ast.RangeStmt:
			if tv, ok := in.pkg.TypesInfo.Types[n.X]; ok {
				if _, ok := tv.Type.Underlying().(*types.Chan); ok {
					found = true
				}
			}
		case *ast.CallExpr:
			if sel, ok := n.Fun.(*ast.SelectorExpr); ok {
				if fn, ok := in.pkg.TypesInfo.Uses[sel.Sel].(*types.Func); ok {
					full := fn.FullName()
					if strings.HasPrefix(full, "(*sync.WaitGroup).") || strings.HasPrefix(full, "(*sync.Cond).") ||
						full == "(*sync.Once).Do" || strings.HasPrefix(full, "sync.Once") {
						found = true
					}
				}
			}
		}
		return !found
	})
	return found
}

func (in *instr) apply() []byte {
	sort.SliceStable(in.edits, func(i, j int) bool {
		a, b := in.edits[i], in.edits[j]
		if a.start != b.start {
			return a.start < b.start
		}
		ai, bi := a.end == a.start, b.end == b.start
		if ai != bi {
			return ai // pure insertions first
		}
		return a.seq < b.seq
	})
	var out []byte
	pos := 0
	for _, e := range in.edits {
		if e.start < pos {
			fmt.Fprintf(os.Stderr, "instrument: overlapping edits in %s at offset %d\n", in.rel, e.start)
			os.Exit(2)
		}
		out = append(out, in.src[pos:e.start]...)
		out = append(out, e.text...)
		pos = e.end
	}
	out = append(out, in.src[pos:]...)
	return out
}

func aggregate(t types.Type, depth int) bool {
	if depth > 3 {
		return false
	}
	switch u := t.Underlying().(type) {
	case *types.Slice, *types.Map, *types.Pointer, *types.Signature, *types.Chan:
		return true
	case *types.Interface:
		return u.NumMethods() > 0
	case *types.Struct:
		for i := 0; i < u.NumFields(); i++ {
			if aggregate(u.Field(i).Type(), depth+1) {
				return true
			}
		}
	}
	return false
}

func collectAPI(p *packages.Package, rep *report) {
	if p.Name == "main" || strings.Contains(p.PkgPath, "/internal/") || p.Types == nil {
		return
	}
	short := p.PkgPath
	if i := strings.Index(short, "go-moremath/"); i >= 0 {
		short = short[i+len("go-moremath/"):]
	}
	qual := func(o *types.Package) string { return o.Name() }
	scope := p.Types.Scope()
	names := scope.Names()
	sort.Strings(names)
	for _, name := range names {
		obj := scope.Lookup(name)
		switch o := obj.(type) {
		case *types.Var:
			rep.PkgVars = append(rep.PkgVars, short+"."+name)
		case *types.Func:
			if !o.Exported() {
				continue
			}
			sig := o.Type().(*types.Signature)
			agg := false
			for i := 0; i < sig.Params().Len(); i++ {
				if aggregate(sig.Params().At(i).Type(), 0) {
					agg = true
				}
			}
			rep.API = append(rep.API, apiEntry{short + "." + name, types.TypeString(sig, qual), agg})
		case *types.TypeName:
			if !o.Exported() {
				continue
			}
			named, ok := o.Type().(*types.Named)
			if !ok {
				continue
			}
			ms := types.NewMethodSet(types.NewPointer(named))
			for i := 0; i < ms.Len(); i++ {
				m := ms.At(i).Obj().(*types.Func)
				if !m.Exported() {
					continue
				}
				sig := m.Type().(*types.Signature)
				agg := aggregate(named, 0)
				for j := 0; j < sig.Params().Len(); j++ {
					if aggregate(sig.Params().At(j).Type(), 0) {
						agg = true
					}
				}
				rep.API = append(rep.API, apiEntry{short + "." + name + "." + m.Name(), types.TypeString(sig, qual), agg})
			}
		}
	}
}
